import json, subprocess, sys
prop, h, key, what, design_row = sys.argv[1:6]
p='/verif/known_findings.json'
k=json.load(open(p))
for pid in prop.split(','):
    k['fixed'].append({"property": pid, "commit": h, "key": key, "what": what, "line": "fixed: property=%s %s %s" % (pid, h, what)})
json.dump(k,open(p,'w'),indent=1)
p='/verif/DESIGN.md'; s=open(p).read()
a="| C01 | 4b43db6 |"
b="| %s | %s | %s |\n| C01 | 4b43db6 |" % (prop.replace(',', ', '), h, design_row)
assert s.count(a)==1; s=s.replace(a,b); open(p,'w').write(s)
