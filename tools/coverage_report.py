#!/venv/bin/python
"""usage: tools/coverage_report.py [--tier quick|thorough] [--out FILE] [ids...]

Which lines of the code each property is anchored in did the monitored workload actually drive?
Runs each check with VERIF_COV_DIR set (vlib.runner then records line+branch coverage of $VERIF_REPO/src/pyg_base in
every shard), combines the shards of a property and reports, per anchored function (the functions that cover the
line ranges in properties.jsonl at the pinned commit, looked up by qualified name in the current tree), the lines
and branches never executed.  A measuring instrument for the workloads, not a check: a line no case reaches is a
path on which the monitors can say nothing.
"""
import sys, os, ast, json, re, subprocess, tempfile, shutil, argparse, glob

VERIF = os.path.dirname(os.path.dirname(os.path.abspath(__file__)))
REPO = os.path.abspath(os.environ.get('VERIF_REPO', '/repo'))
PINNED = '44cdb16'


def funcs(src):
    """qualified name -> (first line, last line) of every def in src, innermost wins on lookup"""
    out = []

    def walk(node, prefix):
        for ch in ast.iter_child_nodes(node):
            if isinstance(ch, (ast.FunctionDef, ast.AsyncFunctionDef, ast.ClassDef)):
                q = prefix + ch.name
                if not isinstance(ch, ast.ClassDef):
                    out.append((q, ch.lineno, ch.end_lineno, ch))
                walk(ch, q + '.')
            else:
                walk(ch, prefix)
    walk(ast.parse(src), '')
    return out


def anchored_functions():
    """property -> file -> set of qualified names"""
    res = {}
    for l in open(os.path.join(VERIF, 'properties.jsonl')):
        d = json.loads(l)
        per = res.setdefault(d['id'], {})
        a = d['anchors']
        for m in a.get('state', []) + a.get('mechanism', []):
            cur = None
            for part in re.split(r';', m.get('where', '')):
                mm = re.search(r'(src/pyg_base/\w+\.py):', part)
                if mm:
                    cur = mm.group(1)
                if cur is None:
                    continue
                try:
                    old = subprocess.run(['git', '-C', REPO, 'show', '%s:%s' % (PINNED, cur)], capture_output=True, text=True).stdout
                    fs = funcs(old)
                except Exception:
                    continue
                for lo, hi in re.findall(r'(\d+)(?:-(\d+))?', part.split(':', 1)[1] if mm else part):
                    lo = int(lo); hi = int(hi or lo)
                    for q, a0, a1, _ in fs:
                        inner = [x for x in fs if x[1] >= a0 and x[2] <= a1 and x[0] != q]
                        if a0 <= hi and a1 >= lo:
                            # innermost functions overlapping the range; a class-level or module-level range maps to nothing
                            per.setdefault(cur, set()).add(q)
        # every def of small single-purpose anchor files counts as anchored
    return res


def body_lines(node):
    """executable statement lines of a function body without its docstring"""
    body = node.body
    if body and isinstance(body[0], ast.Expr) and isinstance(getattr(body[0], 'value', None), ast.Constant) and isinstance(body[0].value.value, str):
        body = body[1:]
    lines = set()
    for st in body:
        for n in ast.walk(st):
            if isinstance(n, ast.stmt):
                lines.add(n.lineno)
    return lines


def main():
    ap = argparse.ArgumentParser()
    ap.add_argument('--tier', default='quick')
    ap.add_argument('--out', default=None)
    ap.add_argument('--keep', default=None, help='reuse / keep the coverage data in this directory')
    ap.add_argument('ids', nargs='*')
    a = ap.parse_args()
    import coverage
    anch = anchored_functions()
    ids = a.ids or sorted(anch)
    covdir = a.keep or tempfile.mkdtemp(prefix='vcov.', dir='/var/tmp')
    os.makedirs(covdir, exist_ok=True)
    report = {}
    for pid in ids:
        if not glob.glob(os.path.join(covdir, pid + '.*.cov')):
            subprocess.run([os.path.join(VERIF, 'check'), pid, '--tier', a.tier, '--no-evidence'],
                           env=dict(os.environ, VERIF_COV_DIR=covdir), capture_output=True, text=True)
        files = glob.glob(os.path.join(covdir, pid + '.*.cov'))
        if not files:
            print('%s: no coverage data' % pid); continue
        comb = os.path.join(covdir, pid + '.combined')
        cov = coverage.Coverage(data_file=comb, branch=True)
        cov.combine(files, keep=True)
        cov.save()
        data = cov.get_data()
        tot_l = tot_m = 0
        per = report.setdefault(pid, {})
        for rel, names in sorted(anch[pid].items()):
            path = os.path.join(REPO, rel)
            src = open(path).read()
            srcl = src.splitlines()
            executed = set(data.lines(path) or [])
            arcs = data.arcs(path) or []
            try:
                _, stmts, _, missing, _ = cov.analysis2(path)
            except Exception:
                stmts, missing = [], []
            stmts = set(stmts)
            for q, lo, hi, node in funcs(src):
                if q not in names:
                    continue
                bl = sorted(l for l in body_lines(node) if l in stmts)
                miss = [l for l in bl if l not in executed]
                tot_l += len(bl); tot_m += len(miss)
                per['%s::%s' % (rel, q)] = {'lines': len(bl), 'missed': [(l, srcl[l - 1].strip()[:110]) for l in miss]}
        print('%s: anchored statements %d, never executed %d (%.1f%% driven)' % (pid, tot_l, tot_m, 100.0 * (tot_l - tot_m) / max(tot_l, 1)))
        for fn, r in per.items():
            if r['missed']:
                print('   %s  (%d of %d missed)' % (fn, len(r['missed']), r['lines']))
                for l, t in r['missed']:
                    print('       %5d  %s' % (l, t))
    if a.out:
        json.dump(report, open(a.out, 'w'), indent=1)
    if not a.keep:
        shutil.rmtree(covdir, ignore_errors=True)


if __name__ == '__main__':
    main()
