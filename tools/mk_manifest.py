#!/venv/bin/python
"""regenerates MANIFEST.json from the property modules present in vlib/props (claimed) and properties.jsonl"""
import json, os, sys, importlib
HERE = os.path.dirname(os.path.dirname(os.path.abspath(__file__)))
sys.path.insert(0, HERE)
props = [json.loads(l) for l in open(os.path.join(HERE, 'properties.jsonl'))]
NA = {}  # property_id -> reason, for properties deliberately not claimed
checks, na = [], []
for p in props:
    pid = p['id']
    path = os.path.join(HERE, 'vlib', 'props', pid + '.py')
    if pid in NA or not os.path.exists(path):
        na.append({'property_id': pid, 'reason': NA.get(pid, 'check not built yet (work in progress; see DESIGN.md section 4 for the planned monitor)')})
        continue
    src = open(path).read()
    g = {}
    # read metadata without importing pyg_base
    for name in ('LEVEL', 'LEVEL_TEXT', 'LEVEL_NOTE', 'TECHNIQUE', 'DESIGN_REF'):
        import re
        m = re.search(r'^%s\s*=\s*(\(.*?\)|\'.*?\'|".*?")\s*$' % name, src, re.S | re.M)
        if m:
            g[name] = eval(m.group(1))
    checks.append({
        'property_id': pid,
        'quick_cmd': './check %s --tier quick' % pid,
        'thorough_cmd': './check %s --tier thorough' % pid,
        'evidence_file': 'evidence/%s.json' % pid,
        'replay_cmd_template': './check %s --replay {path}' % pid,
        'engine': 'vlib-runtime-monitor',
        'level_claimed': {'category': g.get('LEVEL', 'exploration'),
                          'text': g.get('LEVEL_TEXT', 'oracle-observed executions of the real code over seeded hostile workloads; held on the executions observed, nothing more'),
                          'design_ref': g.get('DESIGN_REF', 'DESIGN.md section 4 ' + pid)},
        'level_note': g.get('LEVEL_NOTE', 'trusted base: the harness reference model and same() equality in vlib/, CPython, numpy/pandas as installed'),
        'technique': g.get('TECHNIQUE', 'runtime monitoring: reference-model oracle over observed executions'),
    })
m = {
    'version': 1,
    'setup_cmd': '/venv/bin/python -B -c "import sys; sys.path.insert(0, \'/verif\'); from vlib import env; env.ensure_deps(); print(\'deps ok\')"',
    'hooks': {'guard': 'PYG_BASE_VERIF', 'enable': 'no source hooks are needed: monitors are attached from the harness (icontract invariants, sys.monitoring step budgets, call recorders); ./check exports PYG_BASE_VERIF=1 for form only',
              'baseline_off_cmd': 'cd /repo && /venv/bin/python -m pytest -ra -q -p no:cacheprovider --timeout=900 --continue-on-collection-errors',
              'source_commits': [], 'add_only': True},
    'engines': [{'name': 'vlib-runtime-monitor', 'path': 'vlib/', 'serves_properties': [c['property_id'] for c in checks],
                 'kind_free_text': 'seeded workload generators + executable reference models + invariant hooks (icontract) + sys.monitoring step budgets; sharded subprocess runner; three-valued verdicts'}],
    'checks': checks,
    'not_applicable': na,
    'notes': 'All checks: ./check <id> --tier quick|thorough (env VERIF_SEED, VERIF_TIER honoured). Exit 0 held / 1 VIOLATION / 2 inconclusive. Known findings live in known_findings.json. See DESIGN.md.',
}
json.dump(m, open(os.path.join(HERE, 'MANIFEST.json'), 'w'), indent=1)
try:
    sys.path.append(os.path.join(HERE, '.deps'))
    import jsonschema
    jsonschema.validate(m, json.load(open('/root/.vp/MANIFEST.schema.json')))
    print('MANIFEST.json valid: %d checks, %d not_applicable' % (len(checks), len(na)))
except ImportError:
    print('written (jsonschema not available)')
