#!/bin/bash
# usage: tools/try_patch.sh <patch.diff> <Cxx> [extra check args]
# applies a patch to a scratch worktree of /repo (outside /repo and /verif), runs the owning check against it
# with VERIF_REPO pointing there, prints the exit code, removes the worktree.
PATCH=$(realpath "$1"); PROP=$2; shift 2
WT=$(mktemp -d /var/tmp/vwt.XXXXXX)
git -C /repo worktree add -q --detach "$WT" HEAD || exit 3
# carry over uncommitted changes of /repo's working tree (normally none)
git -C /repo diff HEAD | git -C "$WT" apply --allow-empty 2>/dev/null
if ! git -C "$WT" apply "$PATCH" 2>/dev/null && ! git -C "$WT" apply --3way "$PATCH" 2>/dev/null && ! (cd "$WT" && patch -p1 -s -F3 < "$PATCH"); then echo "PATCH DOES NOT APPLY"; git -C /repo worktree remove --force "$WT"; exit 3; fi
cd /verif && VERIF_REPO="$WT" ./check "$PROP" --no-evidence "$@"
RC=$?
echo "try_patch: $PROP exit=$RC  ($PATCH)"
git -C /repo worktree remove --force "$WT"
exit $RC
