#!/bin/bash
# usage: tools/run_seeded.sh [name-glob]  -- runs every kept seeded change against its owning quick check; prints caught/missed
cd /verif
for d in seeded/${1:-*}/; do
  n=$(basename $d); p=${n%%-*}
  [ -f vlib/props/$p.py ] || { echo "$n: no check yet"; continue; }
  out=$(tools/try_patch.sh $d/patch.diff $p 2>&1); rc=$(echo "$out" | grep -o 'exit=[0-9]*' | tail -1)
  mon=$(echo "$out" | grep -m1 'monitor=' | sed 's/^ *//')
  echo "$n: $rc $mon"
done
