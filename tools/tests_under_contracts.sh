#!/bin/bash
# The repository's own test suite with the harness's class invariants attached (dictable rectangular, ulist unique).
# An instrument, not a registered check: prints the invariants' evaluation counts and any test in which one fired.
# usage: tools/tests_under_contracts.sh [pytest args]     (VERIF_REPO selects the tree, default /repo)
V=$(cd "$(dirname "$0")/.." && pwd)
R=${VERIF_REPO:-/repo}
cd "$R" && PYTHONPATH="$V" /venv/bin/python -m pytest -q -p no:cacheprovider -p vlib.pytest_contracts --timeout=900 --continue-on-collection-errors "${@:-tests}" 2>&1 | grep -E "^contracts:|^CONTRACT-FIRED|passed|failed" 
