#!/bin/bash
# usage: tools/run_seeded_par.sh [name-glob] [jobs]  -- like run_seeded.sh, several seeded changes at a time; prints "<name>: exit=<rc> monitor=..." per change
cd /verif
J=${2:-4}
ls -d seeded/${1:-*}/ | xargs -P $J -I{} bash -c 'd={}; n=$(basename $d); p=${n%%-*}; out=$(tools/try_patch.sh $d/patch.diff $p 2>&1); rc=$(echo "$out" | grep -o "exit=[0-9]*" | tail -1); mon=$(echo "$out" | grep -m1 "monitor=" | sed "s/^ *//"); echo "$n: $rc $mon"'
