#!/bin/bash
# usage: tools/baseline.sh [repo-dir]   -- runs the repository's own suite (guard off) and checks the 224 stable tests still pass
R=${1:-/repo}
OUT=$(mktemp /var/tmp/junit.XXXXXX.xml)
( cd $R && env -u PYG_BASE_VERIF PYTHONPATH=$R/src /venv/bin/python -m pytest -q -p no:cacheprovider --timeout=900 --continue-on-collection-errors --junitxml=$OUT -n 8 >/dev/null 2>&1 )
/venv/bin/python - $OUT <<'PY'
import sys, json, xml.etree.ElementTree as ET
want=set(json.load(open('/root/.vp/BASELINE.json'))['stable_pass'])
ok=set()
for tc in ET.parse(sys.argv[1]).iter('testcase'):
    if not any(ch.tag in('failure','error','skipped') for ch in tc): ok.add(tc.get('classname')+'::'+tc.get('name'))
missing=sorted(want-ok)
print('stable tests passing: %d / %d'%(len(want&ok),len(want)))
for m in missing: print('  NOW FAILING:',m)
sys.exit(1 if missing else 0)
PY
RC=$?; rm -f $OUT; exit $RC
