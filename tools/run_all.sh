#!/bin/bash
# usage: tools/run_all.sh [quick|thorough] [ids...]  -- runs the registered checks in /verif against /repo, writing evidence
cd /verif; TIER=${1:-quick}; shift
IDS=${@:-$(ls vlib/props | grep -o 'C[0-9]*' | sort -u)}
for p in $IDS; do
  out=$(./check $p --tier $TIER 2>&1); rc=$?
  echo "$p rc=$rc $(echo "$out" | grep -E "HELD|VIOLATED|INCONCLUSIVE" | tail -1 | cut -c1-220)"
  echo "$out" | grep -E "^VIOLATION|^INCONCLUSIVE|KNOWN-FINDING" | cut -c1-200
done
