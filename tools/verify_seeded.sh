#!/bin/bash
# usage: tools/verify_seeded.sh <srcdir with patch.diff demo.py meta.json> <name e.g. C02-A>
# Confirms in a scratch worktree of /repo HEAD: patch applies, package imports, 224 stable tests pass, demo fails with / passes without.
# On success stores /verif/seeded/<name>/ {patch.diff, demo.py, meta.json(+ran)}.
SRC=$(realpath $1); NAME=$2
WT=$(mktemp -d /var/tmp/vseed.XXXXXX)
git -C /repo worktree add -q --detach "$WT" HEAD || exit 3
cleanup() { git -C /repo worktree remove --force "$WT"; }
export PYTHONDONTWRITEBYTECODE=1
cd $WT
PYTHONPATH=$WT/src timeout 300 /venv/bin/python -B $SRC/demo.py >/dev/null 2>&1; CLEAN=$?
if ! git -C "$WT" apply "$SRC/patch.diff" 2>/dev/null; then
  if ! git -C "$WT" apply --3way "$SRC/patch.diff" 2>/dev/null; then echo "$NAME: PATCH DOES NOT APPLY to HEAD"; cleanup; exit 3; fi
fi
FILES=$(git -C "$WT" diff --name-only | tr '\n' ' ')
git -C "$WT" diff > $WT/.applied.diff
PYTHONPATH=$WT/src timeout 300 /venv/bin/python -B $SRC/demo.py >/dev/null 2>&1; MUT=$?
TESTS=$(/verif/tools/baseline.sh $WT | head -1)
echo "$NAME: files=[$FILES] demo_clean_rc=$CLEAN demo_mutant_rc=$MUT tests: $TESTS"
if [ $CLEAN -eq 0 ] && [ $MUT -ne 0 ] && echo "$TESTS" | grep -q "224 / 224"; then
  mkdir -p /verif/seeded/$NAME
  cp $WT/.applied.diff /verif/seeded/$NAME/patch.diff
  cp $SRC/demo.py /verif/seeded/$NAME/demo.py
  /venv/bin/python - $SRC/meta.json /verif/seeded/$NAME/meta.json "$FILES" <<'PY'
import json,sys
m=json.load(open(sys.argv[1]))
m['files']=sys.argv[3].split()
m['confirmed']={'how':'tools/verify_seeded.sh in a scratch worktree of /repo HEAD: git apply; PYTHONPATH=<wt>/src demo.py; tools/baseline.sh <wt>',
                'demo_on_clean':'exit 0','demo_on_mutant':'exit != 0','stable_tests':'224 / 224 pass with the patch'}
json.dump(m,open(sys.argv[2],'w'),indent=1)
PY
  echo "$NAME: KEPT"
else
  echo "$NAME: REJECTED"
fi
cleanup
