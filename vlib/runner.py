"""CLI: ./check <Cxx> [--tier quick|thorough] [--replay FILE] [--shards N] [--seed N]

parent: plans shards, runs each in a subprocess (never multiprocessing.Pool), merges what the monitors observed,
classifies violations against known_findings.json, writes replays + evidence, prints the verdict.
"""
import sys, os, json, time, argparse, importlib, subprocess, traceback, random, threading, collections
from concurrent.futures import ThreadPoolExecutor
from . import env, codec, core

MARK = '@@SHARD-RESULT@@ '


def load_prop(pid):
    return importlib.import_module('vlib.props.%s' % pid)


# ------------------------------------------------------------------ shard side
def run_case(prop, ctx, term, fn, shrink=True):
    """run one case under the monitors; library exceptions that escape are violations, harness ones inconclusive"""
    before = ctx.viol_count
    ctx.current = term
    try:
        fn(term, ctx)
    except core.WatchdogFired:
        raise
    except core.StepBudgetExceeded as e:
        ctx.ev('termination_step_budget')
        ctx.fail('termination_step_budget', 'uncaught step budget: %s' % e)
    except Exception as e:
        tb = traceback.extract_tb(e.__traceback__)
        in_lib = any(os.path.abspath(f.filename).startswith(env.SRC + os.sep) for f in tb)
        txt = ''.join(traceback.format_exception(type(e), e, e.__traceback__))[-1800:]
        if in_lib:
            ctx.ev('no_unexpected_exception')
            ctx.fail('no_unexpected_exception', 'library raised %s\n%s' % (core.exc_str(e), txt))
        else:
            ctx.harness_errors.append({'case': term, 'trace': txt})
    except BaseException as e:
        # contract errors are BaseExceptions on purpose (nothing in the library can swallow them); wherever one surfaces it is a violation
        if type(e).__name__ in ('InvariantBroken', 'PostBroken'):
            ctx.ev('class_invariant')
            ctx.fail('class_invariant', '%s: %s' % (type(e).__name__, e))
        else:
            raise
    if shrink and ctx.viol_count > before and ctx.violations and getattr(ctx, '_shrunk', 0) < 3 and getattr(prop, 'SHRINK', False):
        v = ctx.violations[-1]
        if v['case'] is term:
            ctx._shrunk = getattr(ctx, '_shrunk', 0) + 1
            mon, mech = v['monitor'], v['mech']

            def still(c):
                c2 = core.Ctx(ctx.prop, ctx.tier, ctx.seed, ctx.shard)
                run_case(prop, c2, c, fn, shrink=False)
                return any(x['monitor'] == mon and x['mech'] == mech for x in c2.violations)
            try:
                small = core.shrink(term, still)
                if small is not term:
                    c2 = core.Ctx(ctx.prop, ctx.tier, ctx.seed, ctx.shard)
                    run_case(prop, c2, small, fn, shrink=False)
                    for x in c2.violations:
                        if x['monitor'] == mon and x['mech'] == mech:
                            v['case'] = small
                            v['detail'] = x['detail']
                            v['shrunk'] = True
                            break
            except BaseException:
                pass


def exec_shard():
    spec = json.loads(sys.stdin.read())
    env.ensure_deps()
    env.import_repo()
    prop = load_prop(spec['prop'])
    ctx = core.Ctx(spec['prop'], spec['tier'], spec['seed'], spec.get('shard', 0))
    ctx.run_case = lambda term, fn, **k: run_case(prop, ctx, term, fn, **k)
    cov = None
    if os.environ.get('VERIF_COV_DIR'):
        # line coverage of the library under the monitors (tools/coverage_report.py): which anchored code the workload never drives
        import coverage
        cov = coverage.Coverage(data_file=os.path.join(os.environ['VERIF_COV_DIR'], '%s.%s.cov' % (spec['prop'], spec.get('shard', 0))),
                                include=[os.path.join(env.SRC, 'pyg_base', '*')], branch=True)
        cov.start()
    try:
        with core.Watchdog(spec.get('watchdog', 600)):
            if hasattr(prop, 'setup'):
                prop.setup(ctx)
            prop.run(spec, ctx)
    except core.WatchdogFired as e:
        ctx.inconclusive.append('watchdog: %s (case=%s)' % (e, core._short(ctx.current, 400)))
    except Exception as e:
        ctx.harness_errors.append({'case': ctx.current, 'trace': traceback.format_exc()[-2500:]})
    if cov is not None:
        cov.stop(); cov.save()
    sys.stdout.write('\n' + MARK + json.dumps(ctx.result(), default=str) + '\n')
    sys.stdout.flush()


TZS = {1: 'Asia/Tokyo', 3: 'America/New_York'}      # shard number mod 4 -> the process's local time zone (others: the machine's own)


def shard_env(spec):
    """the environment a shard runs in: its string-hash seed and, for half of the shards, a local time zone that is not UTC
    (conversions that silently go through local time only show when local time differs from UTC)"""
    e = dict(os.environ, PYTHONHASHSEED=str(spec.get('hashseed', 0)))
    if spec.get('tz'):
        e['TZ'] = spec['tz']
    return e


def launch(spec, timeout):
    cmd = [sys.executable, '-B', '-m', 'vlib.runner', '--exec-shard']
    try:
        r = subprocess.run(cmd, input=json.dumps(spec), capture_output=True, text=True, timeout=timeout, cwd=env.VERIF,
                           env=shard_env(spec))
    except subprocess.TimeoutExpired:
        return {'spec': spec, 'error': 'shard subprocess timeout %ss' % timeout, 'timeout': True}
    for line in reversed(r.stdout.splitlines()):
        if line.startswith(MARK):
            res = json.loads(line[len(MARK):])
            res['spec'] = spec
            return res
    return {'spec': spec, 'error': 'shard died rc=%s: %s' % (r.returncode, (r.stderr or r.stdout)[-1500:])}


# ------------------------------------------------------------------ parent side
def load_findings():
    p = os.path.join(env.VERIF, 'known_findings.json')
    if not os.path.exists(p):
        return {'findings': [], 'fixed': []}
    return json.load(open(p))


def main(argv=None):
    ap = argparse.ArgumentParser()
    ap.add_argument('prop', nargs='?')
    ap.add_argument('--tier', default=os.environ.get('VERIF_TIER', 'quick'), choices=['quick', 'thorough'])
    ap.add_argument('--seed', type=int, default=int(os.environ.get('VERIF_SEED', '0') or 0))
    ap.add_argument('--shards', type=int, default=int(os.environ.get('VERIF_SHARDS', '0') or 0))
    ap.add_argument('--replay')
    ap.add_argument('--exec-shard', action='store_true')
    ap.add_argument('--no-evidence', action='store_true')
    a = ap.parse_args(argv)
    if a.exec_shard:
        return exec_shard()
    env.ensure_deps()
    if a.replay:
        return replay(a)
    t0 = time.time()
    pid = a.prop
    prop = load_prop(pid)
    ncpu = a.shards or min(16, os.cpu_count() or 4)
    specs = prop.plan(a.tier, a.seed, ncpu)
    for i, s in enumerate(specs):
        s.update(prop=pid, tier=a.tier, seed=a.seed, shard=i)
        s.setdefault('watchdog', 240 if a.tier == 'quick' else 3000)
        # the upper half of the shards runs under a different string-hash seed each (set / dict-of-set iteration orders inside the library differ);
        # recorded with every violation so that a replay runs under the same one
        s.setdefault('hashseed', 0 if i < (len(specs) + 1) // 2 else i + 100 * a.seed)
        if TZS.get(i % 4) and not os.environ.get('VERIF_NO_TZ'):
            s.setdefault('tz', TZS[i % 4])
    timeout = 300 if a.tier == 'quick' else 3600
    with ThreadPoolExecutor(max_workers=ncpu) as ex:
        results = list(ex.map(lambda s: launch(s, timeout), specs))

    monitors, classes, extra = collections.Counter(), collections.Counter(), {}
    nontrivial, samples, violations, inconclusive, herrors = set(), [], [], [], []
    cases = viol_count = 0
    for r in results:
        if 'error' in r:
            inconclusive.append(r['error'])
            continue
        monitors.update(r['monitors']); classes.update(r['classes'])
        cases += r['cases']; viol_count += r['viol_count']
        nontrivial.update(r['nontrivial'])
        for s in r['samples']:
            if len(samples) < 4:
                samples.append(s)
        for v_ in r['violations']:
            v_['hashseed'] = r['spec'].get('hashseed', 0)
            if r['spec'].get('tz'):
                v_['tz'] = r['spec']['tz']
        violations.extend(r['violations'])
        inconclusive.extend(r['inconclusive'])
        herrors.extend(r['harness_errors'])
        for k, v in r['extra'].items():
            if isinstance(v, (int, float)):
                extra[k] = max(extra.get(k, v), v)
            else:
                extra[k] = v

    kf = load_findings()
    known = {f['key']: f for f in kf.get('findings', []) if f.get('property') == pid}
    known_hit, real = collections.OrderedDict(), []
    for v in violations:
        if v.get('mech') and v['mech'] in known:
            known_hit.setdefault(v['mech'], []).append(v)
        else:
            real.append(v)

    required = prop.required(a.tier) if hasattr(prop, 'required') else getattr(prop, 'REQUIRED', {})
    missing = {m: (monitors.get(m, 0), n) for m, n in required.items() if monitors.get(m, 0) < n}
    for k in known_hit:
        print('KNOWN-FINDING: property=%s %s [%s; seen %d times this run]' % (pid, known[k]['what'], k, len(known_hit[k])))
    rc = 0
    if real:
        os.makedirs(os.path.join(env.VERIF, 'replays'), exist_ok=True)
        seen = set()
        for i, v in enumerate(real):
            key = (v['monitor'], v.get('mech'))
            if key in seen and i > 0:
                continue
            seen.add(key)
            path = os.path.join(env.VERIF, 'replays', '%s-s%d-%d.json' % (pid, a.seed, len(seen)))
            json.dump(v, open(path, 'w'), indent=1, default=str)
            print('VIOLATION property=%s replay=%s' % (pid, path))
            print('  monitor=%s mech=%s\n  %s' % (v['monitor'], v.get('mech'), v['detail'][:1200].replace('\n', '\n  ')))
            if len(seen) >= 8:
                break
        rc = 1
    elif herrors or inconclusive or missing or len(nontrivial) < 2:
        rc = 2
        for h in herrors[:3]:
            print('INCONCLUSIVE harness error: %s' % (h['trace'] if isinstance(h, dict) else h))
        for m in inconclusive[:5]:
            print('INCONCLUSIVE: %s' % m)
        for m, (got, need) in missing.items():
            print('INCONCLUSIVE: deciding monitor %s evaluated %d times, needs >= %d' % (m, got, need))
        if len(nontrivial) < 2:
            print('INCONCLUSIVE: fewer than 2 distinct non-trivial cases')
    wall = time.time() - t0
    verdict = {0: 'held', 1: 'violated', 2: 'inconclusive'}[rc]
    if not a.no_evidence:
        write_evidence(prop, a, cases, nontrivial, samples, monitors, classes, extra, viol_count, len(real), known_hit, wall, verdict)
    print('%s %s tier=%s seed=%d: %s  cases=%d distinct_nontrivial=%d monitor_evaluations=%d violations=%d known=%d wall=%.1fs' % (
        pid, getattr(prop, 'TITLE', ''), a.tier, a.seed, verdict.upper(), cases, len(nontrivial), sum(monitors.values()), len(real), len(known_hit), wall))
    top = ', '.join('%s=%d' % kv for kv in sorted(monitors.items()))
    print('  monitors: ' + top)
    return rc


def write_evidence(prop, a, cases, nontrivial, samples, monitors, classes, extra, viol_count, nreal, known_hit, wall, verdict):
    exhaustive = bool(prop.exhaustive(a.tier)) if hasattr(prop, 'exhaustive') else False
    ev = {'property_id': prop.ID, 'tier': a.tier, 'seed': a.seed, 'level': getattr(prop, 'LEVEL', 'exploration'),
          'coverage': {'evaluations': int(cases), 'distinct_nontrivial': len(nontrivial), 'rule': prop.RULE + getattr(prop, 'RULE_ALSO', ''),
                       'samples': samples or [], 'monitor_evaluations': dict(sorted(monitors.items())),
                       'input_classes': dict(sorted(classes.items())), 'exhaustive': exhaustive,
                       'stats': extra, 'verdict': verdict,
                       'known_findings_seen': {k: len(v) for k, v in known_hit.items()},
                       'repo': env.repo_state()},
          'assumptions': list(getattr(prop, 'ASSUMPTIONS', [])),
          'wall_s': round(wall, 2), 'violations': int(nreal)}
    if hasattr(prop, 'exhaustive_note'):
        ev['coverage']['exhaustive_domain'] = prop.exhaustive_note(a.tier)
    path = os.path.join(env.VERIF, 'evidence', '%s.json' % prop.ID)
    os.makedirs(os.path.dirname(path), exist_ok=True)
    try:
        import jsonschema
        schema = json.load(open(os.path.join(env.VERIF, 'vlib', 'EVIDENCE.schema.json')))
        jsonschema.validate(json.loads(json.dumps(ev, default=str)), schema)
    except ImportError:
        pass
    except Exception as e:
        print('NOTE: evidence does not validate against schema: %s' % str(e)[:300])
    json.dump(ev, open(path, 'w'), indent=1, default=str)


def replay(a):
    v = json.load(open(a.replay))
    pid = a.prop or v.get('prop')
    hs = str(v.get('hashseed', 0))
    if os.environ.get('PYTHONHASHSEED') != hs or (v.get('tz') and os.environ.get('TZ') != v['tz']):
        # same string-hash seed and local time zone as the shard that found it
        r = subprocess.run([sys.executable, '-B', '-m', 'vlib.runner'] + sys.argv[1:], env=shard_env({'hashseed': hs, 'tz': v.get('tz')}), cwd=env.VERIF)
        return r.returncode
    env.import_repo()
    prop = load_prop(pid)
    ctx = core.Ctx(pid, 'quick', v.get('seed', 0), v.get('shard', 0))
    ctx.run_case = lambda term, fn, **k: run_case(prop, ctx, term, fn, **k)
    if hasattr(prop, 'setup'):
        prop.setup(ctx)
    prop.replay(v['case'], ctx)
    print('replay %s: %d violation(s); monitors evaluated: %s' % (a.replay, ctx.viol_count, dict(ctx.monitors)))
    for x in ctx.violations[:5]:
        print('  monitor=%s mech=%s\n  %s' % (x['monitor'], x['mech'], x['detail']))
    if ctx.harness_errors:
        print(ctx.harness_errors[0]['trace'])
    return 1 if ctx.viol_count else 0


if __name__ == '__main__':
    try:
        rc = main()
    except SystemExit:
        raise
    except BaseException as e:      # the machinery itself broke: that says nothing about the property
        import traceback
        traceback.print_exc()
        print('INCONCLUSIVE: the checking machinery failed: %s: %s' % (type(e).__name__, e))
        rc = 2
    sys.exit(rc)
