"""Locate the repository under observation and make sure *its working tree* is what gets imported."""
import os, sys, subprocess, hashlib, fcntl

VERIF = os.path.dirname(os.path.dirname(os.path.abspath(__file__)))
REPO = os.path.abspath(os.environ.get('VERIF_REPO', '/repo'))
SRC = os.path.join(REPO, 'src')
DEPS = os.path.join(VERIF, '.deps')
WHEELS = '/opt/veriftools/wheels'


def ensure_deps():
    """offline install of icontract + jsonschema into /verif/.deps (git-ignored, so absent after a fresh restore)"""
    marker = os.path.join(DEPS, '.ok')
    if not os.path.exists(marker):
        lock = os.path.join(VERIF, '.deps.lock')
        with open(lock, 'w') as lf:
            fcntl.flock(lf, fcntl.LOCK_EX)
            if not os.path.exists(marker):
                cmd = [sys.executable, '-m', 'pip', 'install', '-q', '--no-index', '--find-links', WHEELS,
                       '--target', DEPS, 'icontract', 'jsonschema']
                r = subprocess.run(cmd, capture_output=True, text=True)
                if r.returncode != 0:
                    raise RuntimeError('offline install of deps failed: %s' % r.stderr[-2000:])
                open(marker, 'w').write('ok')
    if DEPS not in sys.path:
        sys.path.append(DEPS)  # at the END: never shadow the interpreter's own packages


def setup_path():
    """put $VERIF_REPO/src first so the working tree (not a stale install) is imported"""
    if SRC in sys.path:
        sys.path.remove(SRC)
    sys.path.insert(0, SRC)


def import_repo():
    setup_path()
    import logging, warnings
    warnings.filterwarnings('ignore')
    import pyg_base
    f = os.path.abspath(pyg_base.__file__)
    if not f.startswith(SRC + os.sep):
        raise RuntimeError('pyg_base imported from %s, not from %s' % (f, SRC))
    logging.getLogger('pyg').setLevel(logging.ERROR)
    try:
        from pyg_base._logger import logger
        logger.setLevel(logging.ERROR)
    except Exception:
        pass
    return pyg_base


def repo_state():
    def git(*a):
        try:
            return subprocess.run(['git', '-C', REPO] + list(a), capture_output=True, text=True, timeout=30).stdout
        except Exception:
            return ''
    head = git('rev-parse', 'HEAD').strip()
    diff = git('diff', 'HEAD')
    return {'repo': REPO, 'head': head, 'dirty_diff_sha1': hashlib.sha1(diff.encode()).hexdigest() if diff else None}
