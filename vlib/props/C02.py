"""C02 - join is the relational inner/cross join, xor the anti-join; both terminate, operands unchanged.

Monitor shape: reference model (nested-loop join on row dicts with the key equality the property states) +
logical-step budget on the merge loops (termination as bounded progress) + operand snapshots.
"""
import random, collections, datetime
from .. import core, codec, gen
from ..core import same, HarnessError, StepBudget, snap, snap_same

ID = 'C02'
TITLE = 'join = relational inner/cross join, xor = anti-join, both terminate'
LEVEL = 'exploration'
TECHNIQUE = 'runtime monitoring: nested-loop relational reference model (multiset of rows) + sys.monitoring line-step budget for termination + operand snapshots + repeat-after-mutation sequences'
LEVEL_TEXT = 'Held on the table pairs explored, incl. NaN keys of different identity, many-to-many keys, every lcols/rcols spelling and mode; termination is decided on logical steps (linear budget), not wall clock. A check says held on K observed executions, never verified.'
LEVEL_NOTE = 'Trusted: the nested-loop model and its key equality (taken from the statement), StepBudget. Bool keys and xor with zero keys are outside the conservation law.'
RULE = ('random table pairs (0-8 rows/side quick, up to 40 thorough; key alphabets of 2-5 values so many-to-many is the norm; 0-3 key columns; '
        'keys among None/int/float/NaN objects of several identities/str/datetime mixed within a column), every lcols/rcols spelling and mode; '
        'non-trivial = both sides non-empty and (a duplicate key on each side or a NaN/None/mixed-type key); distinct = canonical hash of the case term')
RULE_ALSO = '; added by the coverage audit and round 8: right operand as a plain dict / records; the result of a keyed join joined / anti-joined again on part of its keys'
ASSUMPTIONS = ['bools are not used as keys (True == 1)', 'xor with zero key columns is not part of the conservation law',
               'result row order is not compared (multiset), column order is not compared',
               'the key cell of a joined row may be either side\'s representative (1 vs 1.0)']


def required(tier):
    return {'join_rows_model': 300, 'xor_rows_model': 150, 'termination_step_budget': 500, 'operands_unchanged': 500, 'conservation_left_join': 100, 'repeat_after_column_reassignment': 100}


def _isnan(v):
    return isinstance(v, float) and v != v


def keq1(a, b):
    if a is None or b is None:
        return a is None and b is None
    if _isnan(a) or _isnan(b):
        return _isnan(a) and _isnan(b)
    num = (int, float)
    if isinstance(a, num) and isinstance(b, num):
        return a == b
    if isinstance(a, datetime.datetime) and isinstance(b, datetime.datetime):
        return a == b          # a pandas Timestamp is a datetime: the same instant is the same key
    if type(a) is type(b):
        return a == b
    return False


def keq(ka, kb):
    return len(ka) == len(kb) and all(keq1(a, b) for a, b in zip(ka, kb))


def canon(v):
    if _isnan(v):
        return ('nan',)
    if isinstance(v, bool):
        return ('b', v)
    if isinstance(v, (int, float)):
        return ('n', v if (isinstance(v, int) and abs(v) >= 2 ** 53) else float(v))
    if isinstance(v, datetime.datetime):
        return ('d', v.isoformat())
    if isinstance(v, tuple):
        return ('t',) + tuple(canon(x) for x in v)
    if isinstance(v, list):
        return ('l',) + tuple(canon(x) for x in v)
    if v is None:
        return ('none',)
    return ('s', str(v))


def rowkey(row):
    return tuple(sorted((k, canon(v)) for k, v in row.items()))


def rows_of(d):
    return [dict(r) for r in d]


def _keyspec(spec):
    """term -> list of items ('name' or {'f': col})"""
    if spec is None:
        return None
    if 's' in spec:
        return [spec['s']]
    return list(spec.get('list', spec.get('tuple')))


def _live_cols(spec):
    if spec is None:
        return None
    def mk(it):
        if isinstance(it, str):
            return it
        if it.get('p') and it['p'] != it['f']:
            # a computed key that is a functools.partial: its first parameter (named like another column of the table) is already bound
            import functools
            return functools.partial(eval('lambda %s, %s: %s' % (it['p'], it['f'], it['f'])), 0)
        return eval('lambda %s: %s' % (it['f'], it['f']))
    if 's' in spec:
        return mk(spec['s'])
    if 'f1' in spec:
        return mk(spec['f1'])
    if 'list' in spec:
        return [mk(i) for i in spec['list']]
    return tuple(mk(i) for i in spec['tuple'])


def _mode(m):
    if isinstance(m, dict):
        return lambda l, r: ('m', r, l)
    return m


def model_join(xc, xr, yc, yr, lspec, rspec, mode):
    l = _keyspec(lspec)
    r = _keyspec(rspec)
    if l is None:
        l = [c for c in xc if c in yc]
    if r is None:
        r = l
    if len(l) != len(r):
        return 'error', ValueError
    names = []
    for a, b in zip(l, r):
        if isinstance(a, str):
            names.append(a)
        elif isinstance(b, str):
            names.append(b)
        else:
            return 'error', ValueError
    kv = lambda row, it: row[it] if isinstance(it, str) else row[it['f']]
    lk = [c for c in xc if c not in names]
    rk = [c for c in yc if c not in names]
    jk = [c for c in lk if c in rk]
    lk = [c for c in lk if c not in jk]
    rk = [c for c in rk if c not in jk]
    out = []
    for lr in xr:
        kl = tuple(kv(lr, it) for it in l)
        for rr in yr:
            kr = tuple(kv(rr, it) for it in r)
            if keq(kl, kr):
                row = dict(zip(names, kl))
                for c in lk:
                    row[c] = lr[c]
                for c in rk:
                    row[c] = rr[c]
                for c in jk:
                    if (isinstance(mode, str) and mode[0].lower() == 'l') or (mode is not None and not isinstance(mode, (str, dict)) and mode == 0):
                        row[c] = lr[c]
                    elif (isinstance(mode, str) and mode[0].lower() == 'r') or (mode is not None and not isinstance(mode, (str, dict)) and mode == 1):
                        row[c] = rr[c]
                    elif isinstance(mode, dict):
                        row[c] = ('m', rr[c], lr[c])
                    else:
                        row[c] = (lr[c], rr[c])
                out.append(row)
    return 'rows', names + lk + rk + jk, out


def model_xor(xc, xr, yc, yr, lspec, rspec):
    l = _keyspec(lspec)
    r = _keyspec(rspec)
    if l is None:
        l = [c for c in xc if c in yc]
    if r is None:
        r = l
    if len(l) != len(r):
        return 'error', ValueError
    kv = lambda row, it: row[it] if isinstance(it, str) else row[it['f']]
    if len(l) == 0:
        return 'rows', list(xc), [dict(r_) for r_ in xr]
    out = []
    for lr in xr:
        kl = tuple(kv(lr, it) for it in l)
        if not any(keq(kl, tuple(kv(rr, it) for it in r)) for rr in yr):
            out.append(dict(lr))
    return 'rows', list(xc), out


def mk_table(term, sess):
    from pyg_base import dictable
    cols = term['cols']
    if not cols:
        return dictable()
    n = len(next(iter(cols.values())))
    if n == 0:
        return dictable([], list(cols))
    return dictable({c: codec.dec(v, sess) for c, v in cols.items()})


def run_case(case, ctx):
    from pyg_base import dictable
    sess = codec._Session()
    x = mk_table(case['x'], sess)
    y = x if case.get('same_object') else mk_table(case['y'], sess)
    xc, yc = list(case['x']['cols']), list(case['y']['cols'])
    xr, yr = rows_of(x), rows_of(y)
    if len(xr) != (len(next(iter(case['x']['cols'].values()))) if xc else 0):
        raise HarnessError('table construction')
    op = case['op']
    lcols, rcols, mode = _live_cols(case['l']), _live_cols(case['r']), _mode(case['mode'])
    sx, sy = snap(dict(x)), snap(dict(y))
    n = len(xr) + len(yr)
    budget = 60 * n + 1500
    codes = [dictable.join, dictable.xor, dictable._listby]
    y_arg = y
    if case.get('other_as') == 'dict' and not case.get('same_object'):
        y_arg = dict(y)                      # the right operand as a plain dict of columns
        ctx.cls('right_operand_as_plain_dict')
    elif case.get('other_as') == 'records' and not case.get('same_object') and len(yr):
        y_arg = [dict(r_) for r_ in y]       # ... or as a list of records
        ctx.cls('right_operand_as_records')
    with StepBudget(codes, budget) as sb:
        if op == 'join':
            st, res = ctx.call(x.join, y_arg, lcols, rcols, mode)
        elif op == 'mul':
            st, res = ctx.call(lambda: x * y_arg)
        elif op == 'xor':
            st, res = ctx.call(x.xor, y_arg, lcols, rcols) if not case.get('xmode') else ctx.call(x.xor, y_arg, lcols, rcols, case['xmode'])
        elif op == 'div':
            st, res = ctx.call(lambda: x / y_arg)
        else:
            raise HarnessError(op)
    ctx.maxstat('max_steps_over_budget', sb.count / float(budget))
    if not ctx.check('termination_step_budget', st != 'steps',
                     lambda: '%s did not finish within %d line events (rows %d+%d): %s' % (op, budget, len(xr), len(yr), res),
                     mech=None):
        return
    ctx.check('operands_unchanged', snap_same(snap(dict(x)), sx) and snap_same(snap(dict(y)), sy), lambda: 'operand modified by %s' % op)
    if op in ('join', 'mul'):
        m = model_join(xc, xr, yc, yr, case['l'] if op == 'join' else None, case['r'] if op == 'join' else None, case['mode'] if op == 'join' else None)
        mon = 'join_rows_model'
    else:
        if op == 'xor' and case.get('xmode') in ('r', 'right', 1) and _nkeys(case, xc, yc) > 0:
            # the mirror image: the rows of y whose key matches no row of x
            l_sp, r_sp = case['l'], case['r']
            if _keyspec(r_sp) is None and _keyspec(l_sp) is not None:
                r_sp = l_sp
            m = model_xor(yc, yr, xc, xr, r_sp, l_sp)
            ctx.cls('xor:mode_right')
        else:
            m = model_xor(xc, xr, yc, yr, case['l'] if op == 'xor' else None, case['r'] if op == 'xor' else None)
        mon = 'xor_rows_model'
    if m[0] == 'error':
        ctx.check('bad_keys_rejected', st == 'exc' and isinstance(res, m[1]), lambda: 'expected %s, got %s %r' % (m[1].__name__, st, res))
        return
    if st == 'exc':
        ctx.ev(mon)
        ctx.fail(mon, '%s raised %s; model yields %d rows' % (op, core.exc_str(res), len(m[2])))
        return
    _, cols, rows = m
    ok = type(res) is dictable and sorted(res.keys()) == sorted(cols)
    if ok:
        got = collections.Counter(rowkey(r) for r in rows_of(res))
        exp = collections.Counter(rowkey(r) for r in rows)
        ok = got == exp and len(res) == len(rows)
    ctx.check(mon, ok, lambda: '%s: got cols %s rows %s\nmodel cols %s rows %s' % (op, list(res.keys()) if hasattr(res, 'keys') else res, rows_of(res) if hasattr(res, 'keys') else None, cols, rows))
    if ok and type(res) is dictable:
        # the result belongs to the caller: a column assigned on it lands on neither operand
        try:
            res['__mine__'] = None
        except Exception:
            pass
        ctx.check('operands_unchanged', snap_same(snap(dict(x)), sx) and snap_same(snap(dict(y)), sy), lambda: 'a column assigned on the result of %s appeared on an operand: x columns %s, y columns %s' % (op, list(x.keys()), list(y.keys())))
        try:
            del res['__mine__']
        except Exception:
            pass
    # conservation: every x row in exactly one of xor and matched part of join (keyed joins only, rows carry a unique id)
    if ok and op in ('xor', 'div') and 'id' in xc and _nkeys(case, xc, yc) > 0 and case.get('xmode') not in ('r', 'right', 1):
        l_, r_ = (case['l'], case['r']) if op == 'xor' else (None, None)
        jl, jr = _live_cols(l_), _live_cols(r_)
        with StepBudget(codes, budget):
            st2, j = ctx.call(x.join, y, jl, jr, 'l')
        if st2 == 'ok' and 'id' in j.keys():
            xo = list(res['id']); ji = set(j['id'])
            ctx.check('conservation_left_join', sorted(xo + sorted(ji), key=repr) == sorted(x['id'], key=repr) and not (set(xo) & ji),
                      lambda: 'ids xor=%s join=%s all=%s' % (xo, sorted(ji), x['id']))
    # second phase on the SAME table objects and key objects: reassign a key column (same length), repeat the operation.
    # state remembered from the first call (e.g. a cached grouping) must not leak into the second.
    if ok and case.get('phase2') and xr and op in ('join', 'xor'):
        items = _keyspec(case['l']) or [c for c in xc if c in yc]
        names = [i if isinstance(i, str) else i['f'] for i in items]
        names = [c for c in names if c in xc]
        if names:
            c0 = names[0]
            newcol = list(x[c0])
            newcol = newcol[1:] + newcol[:1] if len(set(map(repr, newcol))) > 1 else [codec.dec(v, sess) for v in case['phase2']][:len(newcol)] + newcol[len(case['phase2']):]
            if case.get('phase2_via') == 'attr':
                setattr(x, c0, newcol)
            elif case.get('phase2_via') == 'update':
                x.update({c0: newcol})
            elif case.get('phase2_via') == 'ior':
                x |= {c0: newcol}
            elif case.get('phase2_via') == 'update_table':
                x.update(dictable({c0: newcol}))            # the new column handed over as a table of the same length
            else:
                x[c0] = newcol
            xr2 = rows_of(x)
            with StepBudget(codes, budget):
                st3, res3 = ctx.call(x.join, y, lcols, rcols, mode) if op == 'join' else ctx.call(x.xor, y, lcols, rcols)
            m3 = model_join(xc, xr2, yc, yr, case['l'], case['r'], case['mode']) if op == 'join' else model_xor(xc, xr2, yc, yr, case['l'], case['r'])
            ok3 = st3 == 'ok' and m3[0] == 'rows' and type(res3) is dictable and sorted(res3.keys()) == sorted(m3[1]) and \
                collections.Counter(rowkey(r) for r in rows_of(res3)) == collections.Counter(rowkey(r) for r in m3[2])
            ctx.check('repeat_after_column_reassignment', ok3, lambda: '%s repeated on the same table after reassigning column %r: got %s, model %s' % (op, c0, rows_of(res3) if st3 == 'ok' else res3, m3[2] if m3[0] == 'rows' else m3))
    # a result is a table like any other: joined / anti-joined again on SOME of its key columns (not a leading prefix of them), it behaves
    # like a table built afresh from the same rows - nothing remembered about how it was produced may be relied upon
    if ok and op == 'join' and case.get('chain') and len(rows) and m[0] == 'rows':
        items = _keyspec(case['l']) or [c for c in xc if c in yc]
        knames = [n_ for n_ in cols[:len(items)]]
        if len(knames) >= 2 and all(isinstance(i, str) for i in items) and (_keyspec(case['r']) is None or all(isinstance(i, str) for i in _keyspec(case['r']))):
            sub = knames[1:] if case['chain'] == 'tail' else knames[::-1]
            if case['chain'] == 'last':
                sub = knames[-1:]
            seen_, zrows = set(), []
            for r_ in rows[::2] + rows[:1]:
                kk = rowkey({c: r_[c] for c in sub})
                if kk not in seen_:
                    seen_.add(kk)
                    zrows.append(dict({c: r_[c] for c in sub}, ztag=len(zrows)))
            z = dictable(zrows)
            zc = sub + ['ztag']
            for which in ('join', 'xor', 'rjoin'):
                with StepBudget(codes, 60 * (len(rows) + len(zrows)) + 1500):
                    if which == 'join':
                        st4, r4 = ctx.call(res.join, z, list(sub))
                        m4 = model_join(cols, rows, zc, zrows, {'list': list(sub)}, {'list': list(sub)}, None)
                    elif which == 'xor':
                        st4, r4 = ctx.call(res.xor, z, list(sub))
                        m4 = model_xor(cols, rows, zc, zrows, {'list': list(sub)}, {'list': list(sub)})
                    else:
                        st4, r4 = ctx.call(z.join, res, list(sub))
                        m4 = model_join(zc, zrows, cols, rows, {'list': list(sub)}, {'list': list(sub)}, None)
                ok4 = st4 == 'ok' and m4[0] == 'rows' and type(r4) is dictable and sorted(r4.keys()) == sorted(m4[1]) and \
                    collections.Counter(rowkey(r_) for r_ in rows_of(r4)) == collections.Counter(rowkey(r_) for r_ in m4[2])
                ctx.check('result_joined_again', ok4, lambda: 'the result of the first join (keys %s), %s on %s with a table of %d of its own key values: got %s\nmodel %s' % (
                    knames, which, sub, len(zrows), rows_of(r4) if st4 == 'ok' else r4, m4[2] if m4[0] == 'rows' else m4))
            ctx.cls('chain:%s' % case['chain'])
    # classes / non-triviality
    kl = _keycells(case, 'x'); kr = _keycells(case, 'y')
    if xr and yr:
        dup = lambda ks: len(ks) != len(set(map(repr, ks)))
        hostile = any(c is None or isinstance(c, dict) for k in kl + kr for c in k) or len({type(c).__name__ for k in kl + kr for c in k}) > 1
        if (dup(kl) and dup(kr)) or hostile:
            ctx.mark_nontrivial(case)
        if hostile:
            ctx.cls('hostile_keys')
        if dup(kl) and dup(kr):
            ctx.cls('many_to_many')
    else:
        ctx.cls('empty_side')
    ctx.cls('op:' + op)
    ctx.cls('nkeys:%d' % _nkeys(case, xc, yc))


def _nkeys(case, xc, yc):
    l = _keyspec(case['l']) if case['op'] in ('join', 'xor') else None
    return len([c for c in xc if c in yc]) if l is None else len(l)


def _keycells(case, side):
    """encoded key cells per row (terms) for class accounting"""
    spec = case['l' if side == 'x' else 'r'] if case['op'] in ('join', 'xor') else None
    if spec is None and side == 'y' and case['op'] in ('join', 'xor'):
        spec = case['l']
    cols = case[side]['cols']
    items = _keyspec(spec)
    if items is None:
        items = [c for c in case['x']['cols'] if c in case['y']['cols']]
    names = [i if isinstance(i, str) else i['f'] for i in items]
    names = [n for n in names if n in cols]
    if not names:
        return []
    n = len(cols[names[0]])
    return [tuple(cols[c][i] for c in names) for i in range(n)]


def _has_nan_both(case):
    f = lambda side: any(isinstance(c, dict) and '$nan' in c for k in _keycells(case, side) for c in k)
    return f('x') and f('y')


# ------------------------------------------------------------------ generator
def keycell(rng, kind):
    if kind == 'int':
        return rng.choice([0, 1, 2])
    if kind == 'str':
        return rng.choice(['x', 'y', 'z', 'aa', 'b', 'ab', 'IBM', 'GE', ''])
    if kind == 'num':
        return rng.choice([0, 1, 1.0, 2, 2.5, 2.0])
    if kind == 'nan':
        return rng.choice([1, 2.0, {'$nan': rng.randrange(1000)}, {'$nan': 'np'}, {'$nan': rng.randrange(3)}])
    if kind == 'none':
        return rng.choice([None, 1, 'x'])
    if kind == 'inf':         # infinities of both signs among ordinary numbers (no NaN in the column)
        return rng.choice([0, 1, 2.5, {'$inf': -1}, {'$inf': 1}, 2, {'$inf': -1}, -3])
    if kind == 'npfloat':     # numpy float64 scalars (cells taken from an array) next to python numbers of the same value
        return rng.choice([{'$np': ['float64', 1.0]}, 1, 1.0, {'$np': ['float64', 2.5]}, 2.5, 2, {'$np': ['float64', 2.0]}, {'$np': ['float64', {'$nan': rng.randrange(50)}]}, {'$nan': rng.randrange(50)}])
    if kind == 'bigint':
        return rng.choice([2 ** 53, 2 ** 53 + 1, 2 ** 53 + 2, float(2 ** 53), 5, 1577836800000000000, 1577836800000000001])     # distinct ids / epoch-ns stamps that round to one double
    if kind == 'dt':
        return rng.choice([{'$dt': '2020-01-01T00:00:00'}, {'$dt': '2020-01-02T00:00:00'}, None])
    if kind == 'pdts':       # dates read from a DataFrame (pandas Timestamps) next to hand-typed datetimes
        return rng.choice([{'$dt': '2020-01-01T00:00:00'}, {'$pdts': '2020-01-01T00:00:00'}, {'$pdts': '2020-01-02T00:00:00'}, {'$dt': '2020-01-02T00:00:00'}, {'$pdts': '2020-01-03T12:00:00'}])
    if kind == 'pdns':       # stamps a few nanoseconds apart (pandas Timestamps carry them): different instants, different keys
        return rng.choice([{'$pdts': '2020-01-01T00:00:00'}, {'$pdts': '2020-01-01T00:00:00.000000001'}, {'$pdts': '2020-01-01T00:00:00.000000002'}, {'$pdts': '2020-01-01T00:00:00.000000007'}, {'$dt': '2020-01-01T00:00:00'}, {'$pdts': '2020-01-01T00:00:00.000001'}])
    if kind == 'mixed':
        return rng.choice([None, 0, 1, 1.0, 2.5, {'$nan': rng.randrange(1000)}, {'$nan': 'np'}, 'x', 'y', 'aa', 'b', '', {'$dt': '2020-01-01T00:00:00'}, {'$dt': '2021-06-30T12:00:00'}])
    raise ValueError(kind)


def gen_case(rng, maxrows):
    nk = rng.choice([0, 1, 1, 1, 2, 2, 3])
    kinds = [rng.choice(['int', 'str', 'num', 'nan', 'none', 'dt', 'mixed', 'mixed', 'bigint', 'npfloat', 'pdts', 'inf', 'pdns']) for _ in range(nk)]
    nl = rng.choice([0, 1, 2, 3, 4, 5, 6, maxrows])
    nr = rng.choice([0, 1, 2, 3, 4, 5, 6, maxrows])
    style = rng.choice(['implicit', 'same', 'same', 'diff', 'diff', 'lfun', 'rfun'])
    lnames = ['k%d' % i for i in range(nk)]
    rnames = list(lnames) if style in ('implicit', 'same') else ['j%d' % i for i in range(nk)]
    if style in ('lfun', 'rfun') and rng.random() < 0.5:
        rnames = list(lnames)
    x = {c: [keycell(rng, k) for _ in range(nl)] for c, k in zip(lnames, kinds)}
    y = {c: [keycell(rng, k) for _ in range(nr)] for c, k in zip(rnames, kinds)}
    x['id'] = list(range(100, 100 + nl))
    if rng.random() < 0.7:
        y['rid'] = list(range(200, 200 + nr))
    shared = style != 'implicit' and rng.random() < 0.5
    if shared:
        x['v'] = gen.cells(rng, nl, nan=0.05)
        y['v'] = gen.cells(rng, nr, nan=0.05)
    if rng.random() < 0.4:
        x['lx'] = gen.cells(rng, nl, nan=0.05)
    if rng.random() < 0.2 and style == 'diff' and nk:
        x[rnames[0]] = gen.cells(rng, nl, nan=0)  # left also owns a column named like the right key
    if rng.random() < 0.06:
        x = {} if rng.random() < 0.5 else x
        if not x:
            style = 'implicit'
    if rng.random() < 0.04:
        y = {}
        style = 'implicit'
    op = rng.choice(['join', 'join', 'join', 'xor', 'xor', 'mul', 'div'])
    if style == 'implicit' or nk == 0:
        if nk == 0 and rng.random() < 0.5 and op in ('join', 'xor'):
            l = {'list': []}; r = rng.choice([None, {'list': []}])
        else:
            l = r = None
            if op in ('mul', 'div') or True:
                pass
    else:
        def spell(names, funs):
            items = [({'f': n} if f else n) for n, f in zip(names, funs)]
            for it_ in items:
                if isinstance(it_, dict) and rng.random() < 0.4:
                    it_['p'] = 'id' if names is lnames else 'rid'
            if len(items) == 1 and rng.random() < 0.5:
                return {'s': items[0]} if isinstance(items[0], str) else {'f1': items[0]}
            return {rng.choice(['list', 'tuple']): items}
        lf = [False] * nk; rf = [False] * nk
        if style == 'lfun':
            lf[rng.randrange(nk)] = True
        if style == 'rfun':
            rf[rng.randrange(nk)] = True
        l = spell(lnames, lf)
        r = None if (rnames == lnames and not any(rf) and not any(lf) and rng.random() < 0.6) else spell(rnames, rf)
        if op in ('mul', 'div'):
            op = 'join' if op == 'mul' else 'xor'
    if (op in ('mul', 'div')) and not (l is None and r is None):
        op = 'join'
    mode = rng.choice([None, None, 'l', 'r', 'left', 'right', 0, 1, {'fn': 'swap'}])
    r5 = rng.random()
    if r5 < 0.02 and nk >= 1 and l is not None:
        r = {'list': ['zz', 'yy', 'xx', 'ww'][:nk + 1]}  # length mismatch => ValueError
    case = {'x': {'cols': x}, 'y': {'cols': y}, 'l': _norm(l), 'r': _norm(r), 'mode': mode, 'op': op}
    if style == 'diff' and nk and x and rng.random() < 0.15 and op in ('join', 'xor') and l is not None and r is not None:
        # the same table object on both sides, matched on different columns (e.g. parent / node)
        for c, k_ in zip(rnames, kinds):
            x[c] = [keycell(rng, k_) for _ in range(nl)]
        case['y'] = {'cols': dict(x)}
        case['same_object'] = True
        return case
    if rng.random() < 0.3 and nk:
        case['phase2'] = [keycell(rng, kinds[0]) for _ in range(nl)]
        case['phase2_via'] = rng.choice(['item', 'attr', 'update', 'ior', 'update_table'])
    if op == 'xor' and rng.random() < 0.3:
        case['xmode'] = rng.choice(['l', 'r', 'right', 1, 'left', 0])
        case.pop('phase2', None)
    if rng.random() < 0.08:
        case = rename_columns(case)
    if rng.random() < 0.1 and y:
        case['other_as'] = rng.choice(['dict', 'records'])
    if op == 'join' and nk >= 2 and rng.random() < 0.5:
        case['chain'] = rng.choice(['tail', 'reversed', 'last'])
    return case


def rename_columns(case):
    """the same case over columns that are called like parameters of the library's own constructors / methods"""
    ren = {'v': 'data', 'lx': 'columns', 'k0': 'key', 'j0': 'mode', 'k1': 'lcols', 'j1': 'other'}

    def rn(x):
        if isinstance(x, str):
            return ren.get(x, x)
        if isinstance(x, list):
            return [rn(v) for v in x]
        if isinstance(x, dict):
            return {(k if k in ('s', 'f', 'f1', 'list', 'tuple', 'fn', 'p') else rn(k)): rn(v) for k, v in x.items()}
        return x
    out = dict(case)
    for side in ('x', 'y'):
        out[side] = {'cols': {ren.get(c, c): v for c, v in case[side]['cols'].items()}}
    out['l'], out['r'] = rn(case['l']), rn(case['r'])
    if 'phase2_via' in out:
        out['phase2_via'] = 'item'
    return out


def _norm(s):
    if s is None:
        return None
    if 'f1' in s:
        return {'list': [s['f1']]}
    return s


def plan(tier, seed, n):
    per, mx = (1500, 8) if tier == 'quick' else (40000, 40)
    return [{'n': per, 'maxrows': mx} for _ in range(n)]


def run(spec, ctx):
    for i in range(spec['n']):
        rng = random.Random('C02/%d/%d/%d' % (spec['seed'], spec['shard'], i))
        mx = spec['maxrows'] if rng.random() < 0.15 else 8
        if rng.random() < 0.02:
            mx = 70          # a few long tables in every tier: any size-dependent path of join / xor (hash look-ups, batch sorts) is reached
        case = gen_case(rng, mx)
        ctx.case(case)
        ctx.run_case(case, run_case)
        if ctx.full():
            break


def replay(case, ctx):
    ctx.case(case)
    ctx.run_case(case, run_case, shrink=False)
