"""C10 - drange enumerates exactly t0, t0+bump, ... up to t1 for every kind of bump.

Monitor shape: iterate-and-compare oracle (repeated application of the bump while inside the closed interval), law monitors
(strict monotonicity, maximality, int == timedelta == 'nd', weekday-only for b), ValueError for bumps pointing away, and a
logical-step budget on drange + dateutil's rrule iterator (never unbounded)."""
import random, datetime
from .. import core
from ..core import HarnessError, StepBudget

ID = 'C10'
TITLE = 'drange enumerates t0, t0+bump, ... up to t1'
LEVEL = 'exploration'
TECHNIQUE = 'runtime monitoring: iterate-and-compare oracle + monotonicity/maximality/agreement laws + line-step budget on drange and dateutil.rrule._iter + result-freshness check'
LEVEL_TEXT = 'Held on the (start, span, bump) triples explored for every bump kind and direction. A check says held on K observed executions, never verified.'
LEVEL_NOTE = 'Trusted: period strings are iterated with the real dt_bump (validated by C09); period-string endpoints carry no microseconds.'
RULE = ('random (t0, span, bump): starts anywhere in 1950-2100, spans 0..3 years in either direction, bumps among ints, timedeltas (incl. intraday), single period strings with every '
        'unit letter and sign, business-day strings kb, compound strings, and bumps pointing away from t1; non-trivial = backward range, or |step| > 1, or compound bump; distinct = canonical hash')
RULE_ALSO = '; added by the coverage audit and round 8: an endpoint given as an offset from the other one, nearly cancelling compounds (must raise, never loop), tz-aware endpoints, start and end with different sub-second parts, compounds naming a unit twice'
ASSUMPTIONS = ['zero-length bumps are outside the quantifier and not generated', 'endpoints are whole days apart for int and b bumps, midnight and day<=28 for month-based units',
               'period-string bumps use endpoints without microseconds (dateutil.rrule truncates microseconds); microseconds are exercised with timedelta bumps',
               'period strings are iterated with the real dt_bump (validated separately by C09)']
DAY = datetime.timedelta(1)


def required(tier):
    return {'drange_equals_iteration': 400, 'strictly_monotone': 400, 'maximal': 300, 'int_timedelta_nd_agree': 100, 'b_weekdays_only': 80, 'away_bump_raises': 80,
            'single_point': 20, 'termination_step_budget': 500, 'result_is_fresh': 300}


def mk_bump(b):
    if isinstance(b, dict):
        return datetime.timedelta(seconds=b['td'])
    return b


def step_fn(bump):
    from pyg_base import dt_bump
    if isinstance(bump, int) and not isinstance(bump, bool):
        return lambda t: t + DAY * bump
    if isinstance(bump, datetime.timedelta):
        return lambda t: t + bump
    return lambda t: dt_bump(t, bump)


def run_case(case, ctx):
    from pyg_base import drange, dt_bump
    from dateutil.rrule import rrule
    t0 = datetime.datetime.fromisoformat(case['t0'])
    t1 = datetime.datetime.fromisoformat(case['t1'])
    bump = mk_bump(case['bump'])
    kind = case['kind']
    if case.get('tz') is not None:
        # endpoints that carry a (fixed-offset) time zone: the list is made of the same kind of datetime, whatever its length
        tz_ = datetime.timezone(datetime.timedelta(minutes=case['tz']))
        t0, t1 = t0.replace(tzinfo=tz_), t1.replace(tzinfo=tz_)
        ctx.cls('tz_aware_endpoints')
    span_days = abs((t1 - t0).days) + 1
    # ---- expected by iteration
    fwd = t1 >= t0
    inside = (lambda t: t0 <= t <= t1) if fwd else (lambda t: t1 <= t <= t0)
    if kind == 'b':
        k = int(bump[:-1])
        lo, hi = min(t0, t1), max(t0, t1)
        wk = []
        t = lo
        while t <= hi:
            if t.weekday() < 5:
                wk.append(t)
            t += DAY
        away = (k > 0 and t1 < t0) or (k < 0 and t1 > t0)
        exp = None if away else (wk if k > 0 else wk[::-1])[::abs(k)]
    else:
        f = step_fn(bump)
        nxt = f(t0)
        away = (nxt > t0 and not fwd) or (nxt < t0 and fwd)
        if nxt == t0:
            if kind != 'compound':
                raise HarnessError('zero bump generated')
            away = True          # parts that cancel at t0: the bump does not point towards t1 either
        exp = None
        stall = False
        if not away:
            exp = []
            t = t0
            cap = 40000 if case.get('long_walk') else 5000
            while inside(t) and len(exp) < cap:
                exp.append(t)
                t2 = f(t)
                if (t2 <= t) if fwd else (t2 >= t):
                    stall = True      # parts of opposite sign that cancel (or overshoot) later in the walk, e.g. '1m-28d' reaching 1 February: the walk cannot reach t1
                    break
                t = t2
            if len(exp) >= cap:
                raise HarnessError('span too long')
    if t0 == t1:
        exp, away = [t0], False
    n_exp = len(exp) if exp is not None else 0
    budget = 3000 * (n_exp + 3) + 100 * span_days
    codes = [drange, rrule._iter]
    poisoned = False
    if kind == 'b' and case.get('default_calendar_has_holidays'):
        # someone registered holidays / another weekend on the default calendar: drange's 'b' bumps are about weekdays only
        from pyg_base import calendar
        lo_ = min(t0, t1)
        hols = [datetime.datetime(lo_.year, lo_.month, lo_.day) + DAY * i for i in range(0, 40, 3)]
        calendar(None, holidays=hols, weekend=[4, 5])
        poisoned = True
    if case.get('warm_longer') and t0 != t1 and not away:
        # an earlier call from the same start with the same bump that ran further: nothing of it may be reused
        ctx.call(drange, t0, t1 + (t1 - t0) * 2, bump)
        ctx.cls('after_a_longer_range_from_the_same_start')
    try:
        from .C13 import flavour
        with StepBudget(codes, budget) as sb:
            st, res = ctx.call(drange, flavour(t0, case.get('t0f')), flavour(t1, case.get('t1f')), bump) if case.get('tz') is None else ctx.call(drange, t0, t1, bump)
    finally:
        if poisoned:
            from pyg_base import _drange
            _drange.calendars.pop(None, None)
    ctx.maxstat('max_steps_over_budget', sb.count / float(budget))
    if not ctx.check('termination_step_budget', st != 'steps', lambda: 'drange(%s, %s, %r) exceeded %d line events' % (t0, t1, bump, budget)):
        return
    if t0 == t1:
        ctx.check('single_point', st == 'ok' and list(res) == [t0], lambda: 'drange(t, t, %r) = %s %r' % (bump, st, res))
        return
    if not away and kind != 'b' and t0 != t1 and stall:
        # neither an unbounded list (the step budget above) nor a list that is not strictly monotone: the statement leaves ValueError
        ctx.check('away_bump_raises', st == 'exc' and isinstance(res, ValueError), lambda: 'drange(%s, %s, %r): iterating the bump stops advancing at %s (next: %s) -> %s %r (expected ValueError)' % (t0, t1, bump, exp[-1], step_fn(bump)(exp[-1]), st, res if st != 'ok' else res[-3:]))
        ctx.cls('stalls_mid_walk')
        ctx.mark_nontrivial(case)
        return
    if away:
        ctx.check('away_bump_raises', st == 'exc' and isinstance(res, ValueError), lambda: 'drange(%s, %s, %r) with a bump pointing away from t1 -> %s %r (expected ValueError)' % (t0, t1, bump, st, res if st != 'ok' else res[:5]))
        ctx.cls('away:' + kind)
        return
    if st != 'ok':
        ctx.ev('drange_equals_iteration')
        ctx.fail('drange_equals_iteration', 'drange(%s, %s, %r) raised %s; iteration gives %d elements %s...' % (t0, t1, bump, core.exc_str(res), n_exp, exp[:3]))
        return
    if isinstance(res, list):
        # the caller owns the list it got: editing it must not affect what a later identical call returns
        keep = list(res)
        res.reverse(); res.append('edited-by-caller')
        st_again, again = ctx.call(drange, t0, t1, bump)
        ctx.check('result_is_fresh', st_again == 'ok' and list(again) == keep, lambda: 'drange(%s, %s, %r) called again after the caller edited the first result: %s.. (first call gave %s..)' % (t0, t1, bump, again[:4] if st_again == 'ok' else again, keep[:4]))
        res = keep
    if not isinstance(res, (list, tuple)):
        ctx.ev('drange_equals_iteration')
        ctx.fail('drange_equals_iteration', 'drange(%s, %s, %r) returned %r, not a list; iterating the bump gives %d elements %s..' % (t0, t1, bump, res, n_exp, exp[:3]))
        return
    res = list(res)
    ctx.check('drange_equals_iteration', res == exp, lambda: 'drange(%s, %s, %r) = %d elements %s..%s; iterating the bump gives %d elements %s..%s' % (t0, t1, bump, len(res), res[:4], res[-2:], n_exp, exp[:4], exp[-2:]))
    mono = all((b > a) if fwd else (b < a) for a, b in zip(res, res[1:]))
    ctx.check('strictly_monotone', mono and (not res or inside(res[0])) and all(inside(x) for x in res), lambda: 'not strictly monotone inside the interval: %s' % res[:8])
    if kind == 'b':
        ctx.check('b_weekdays_only', all(x.weekday() < 5 for x in res), lambda: 'weekend day listed: %s' % [x for x in res if x.weekday() > 4][:3])
    elif res:
        ctx.check('maximal', res[0] == t0 and not inside(step_fn(bump)(res[-1])), lambda: 'starts at %s (t0=%s); one more step from %s stays inside' % (res[0], t0, res[-1]))
    if kind in ('int', 'nd'):
        n = bump if kind == 'int' else int(bump[:-1])
        import numpy as np
        a = ctx.call(drange, t0, t1, n if (n + t0.day) % 3 else np.int64(n))       # now and then the count is a numpy integer
        b = ctx.call(drange, t0, t1, datetime.timedelta(n))
        c = ctx.call(drange, t0, t1, '%dd' % n)
        ok = a[0] == b[0] == c[0] == 'ok' and list(a[1]) == list(b[1]) == list(c[1])
        ctx.check('int_timedelta_nd_agree', ok, lambda: 'n=%d: int %s.. / timedelta %s.. / string %s..' % (n, _h(a), _h(b), _h(c)))
    if kind != 'b' and case.get('via_calendar') and not str(bump).lower().endswith('b'):      # (a Calendar reads every string ending in 'b' as ITS business days: C05's subject)
        from pyg_base import Calendar
        stc, rc = ctx.call(Calendar().drange, t0, t1, bump)
        ctx.check('calendar_drange_non_b', stc == 'ok' and list(rc) == exp, lambda: 'Calendar().drange(%s, %s, %r) = %s, drange gives %s' % (t0, t1, bump, rc[:4] if stc == 'ok' else rc, exp[:4]))
    span = t1 - t0
    if span.seconds == 0 and span.microseconds == 0 and span.days != 0 and abs(span.days) <= 4000 and (t0.year + span.days) % 4 == 0:
        # an endpoint given as an offset from the other one (documented spelling: a date or a date bump): the same list
        k_ = span.days
        e1 = ctx.call(drange, t0, '%dd' % k_, bump)
        e0 = ctx.call(drange, '%dd' % -k_, t1, bump)
        ok = e1[0] == e0[0] == 'ok' and list(e1[1]) == res and list(e0[1]) == res
        ctx.check('endpoint_as_offset', ok, lambda: "drange(%s, '%dd', %r) = %s.. ; drange('%dd', %s, %r) = %s.. ; with both endpoints as dates %s.." % (t0, k_, bump, _h(e1), -k_, t1, bump, _h(e0), res[:4]))
    if not fwd or case.get('big') or kind == 'compound':
        ctx.mark_nontrivial(case)
    ctx.cls('kind:' + kind)
    ctx.cls('dir:' + ('fwd' if fwd else 'back'))


def _h(r):
    return (r[1][:3], len(r[1])) if r[0] == 'ok' else core.exc_str(r[1])


def gen_case(rng):
    kind = rng.choice(['int', 'nd', 'td', 'td_intra', 'single', 'single', 'single_intra', 'b', 'b', 'compound', 'compound'])
    y = rng.randint(1950, 2100)
    day = datetime.datetime(y, rng.randint(1, 12), rng.randint(1, 28))
    sign = rng.choice([1, 1, -1])
    away = rng.random() < 0.12
    big = False
    if kind in ('int', 'nd'):
        n = rng.choice([1, 1, 2, 3, 7, 30, 365]) * sign
        span = rng.choice([0, 1, 2, 5, 13, 40, 400, 1100])
        if rng.random() < 0.06:
            n = rng.choice([1499, 1500, 1827, 4000]) * sign       # steps of several years
            span = rng.choice([0, 900, 3700, 9000])
        t0 = day + datetime.timedelta(hours=rng.choice([0, 0, 9]))
        t1 = t0 + DAY * span * sign
        if rng.random() < 0.25:
            t1 = t1 + datetime.timedelta(hours=rng.choice([-9, 5, 13])) * (1 if span else sign)          # endpoints that are not a whole number of days apart
        if rng.random() < 0.12:
            us_ = datetime.timedelta(microseconds=rng.choice([5, 250000]))                                # a start stamped to the microsecond
            t0, t1 = t0 + us_, t1 + us_
        bump = n if kind == 'int' else '%dd' % n
        big = abs(n) > 1
    elif kind == 'td':
        n = rng.choice([1, 2, 10]) * sign
        t0 = day + datetime.timedelta(hours=rng.randrange(24), microseconds=rng.choice([0, 5]))
        t1 = t0 + DAY * rng.choice([0, 1, 3, 29, 200]) * sign + datetime.timedelta(hours=rng.choice([0, 5])) * sign
        bump = {'td': 86400.0 * n}
        big = abs(n) > 1
    elif kind == 'td_intra':
        secs = rng.choice([3600, 1800, 5400, 60, 14400, 86400 + 3600]) * sign
        t0 = day + datetime.timedelta(hours=rng.randrange(24), minutes=rng.randrange(60), microseconds=rng.choice([0, 250000]))
        t1 = t0 + datetime.timedelta(seconds=rng.choice([0, 1800, 3600 * 5, 86400 * 2 + 30, 100])) * sign
        bump = {'td': float(secs)}
        big = True
    elif kind == 'single':
        u = rng.choice('dwmqy')
        n = rng.choice([1, 1, 2, 3, 5]) * sign
        unit_days = {'d': 1, 'w': 7, 'm': 30, 'q': 91, 'y': 365}[u]
        t0 = day
        t1 = t0 + DAY * (unit_days * abs(n) * rng.choice([0, 1, 2, 5, 9]) + rng.choice([0, 1, 3])) * sign
        if u in 'mqy':
            t1 = datetime.datetime(t1.year, t1.month, min(t1.day, 28))
        if rng.random() < 0.1 and u in 'dw':          # (month-based units are stated for dates at midnight)
            us_ = datetime.timedelta(microseconds=rng.choice([5, 250000]))
            t0, t1 = t0 + us_, t1 + us_
        bump = '%d%s' % (n, u)
        big = abs(n) > 1
    elif kind == 'single_intra':
        u = rng.choice('hns')
        n = rng.choice([1, 2, 15, 30]) * sign
        usec = {'h': 3600, 'n': 60, 's': 1}[u]
        t0 = day + datetime.timedelta(hours=rng.randrange(24), minutes=rng.randrange(60), seconds=rng.randrange(60))
        t1 = t0 + datetime.timedelta(seconds=usec * abs(n) * rng.choice([0, 1, 3, 20, 50]) + rng.choice([0, 1, 59])) * sign
        if rng.random() < 0.3:
            # a start stamped to the microsecond, an end with another (or no) sub-second part
            t0 = t0 + datetime.timedelta(microseconds=rng.choice([5, 250000, 500000, 999999]))
            t1 = t1.replace(microsecond=rng.choice([0, 0, 100, 400000, 999999]))
            if (t1 - t0).total_seconds() * sign < 0:
                t1 = t0
        bump = '%d%s' % (n, u)
        big = True
    elif kind == 'b':
        k = rng.choice([1, 1, 1, 2, 3, 5, 7]) * sign
        t0 = day + (datetime.timedelta(hours=rng.choice([9, 10, 17, 23]), minutes=rng.choice([0, 30])) if rng.random() < 0.3 else datetime.timedelta(0))     # endpoints a whole number of days apart, at midnight or at one time of day
        t1 = t0 + DAY * rng.choice([0, 1, 2, 3, 6, 10, 31, 400]) * sign
        bump = '%db' % k if rng.random() > 0.15 else '%dB' % k
        big = abs(k) > 1
    else:
        parts = []
        units = rng.choice(['md', 'yd', 'wd', 'dh', 'mw', 'qd', 'hn', 'ym', 'bd', 'wb', 'db', 'mb', 'qb', 'dd', 'wdd', 'hnh', 'nsn', 'hh', 'dwd'])     # also compounds that END in a business-day part, and ones naming a unit twice
        for u in units:
            parts.append('%d%s' % (rng.choice([1, 2, 3]) * sign, u))
        if rng.random() < 0.3:
            # parts of opposite sign: the direction of the compound is that of its net movement, whichever part is written first
            big_u, small_u, nsmall = rng.choice([('w', 'd', 3), ('m', 'd', 3), ('y', 'm', 3), ('d', 'h', 12), ('q', 'd', 5), ('m', 'w', 1)])
            units = big_u + small_u
            parts = ['%d%s' % (rng.choice([1, 2]) * sign, big_u), '%d%s' % (-rng.randint(1, nsmall) * sign, small_u)]
            if rng.random() < 0.3:
                # ... parts that nearly cancel: the net step shrinks to nothing (or turns round) in a short month
                big_u, small_u, lo_, hi_ = rng.choice([('m', 'd', 27, 31), ('m', 'w', 4, 4), ('q', 'd', 88, 92), ('y', 'd', 364, 366), ('w', 'd', 6, 8)])
                units = big_u + small_u
                parts = ['%d%s' % (sign, big_u), '%d%s' % (-rng.randint(lo_, hi_) * sign, small_u)]
            if rng.random() < 0.5:
                parts.reverse()
        bump = ''.join(parts)
        intr = any(u in 'hns' for u in units)
        t0 = day + (datetime.timedelta(hours=rng.randrange(24)) if intr else datetime.timedelta(0))
        approx = sum({'d': 1, 'w': 7, 'm': 30, 'q': 91, 'y': 365, 'h': 0.05, 'n': 0.001, 's': 0.00002, 'b': 1.4}[u] for u in units)
        if rng.random() < 0.15:
            bump = bump.upper()            # unit letters are case-insensitive
        t1 = t0 + datetime.timedelta(days=approx * rng.choice([0, 1, 2, 4, 9]) + rng.choice([0, 1])) * sign
        if not intr:
            t1 = datetime.datetime(t1.year, t1.month, min(t1.day, 28))
        kind = 'compound'
    if away and t0 != t1:
        t1 = t0 - (t1 - t0)
        if kind in ('single', 'compound') and not any(u in str(bump) for u in 'hns'):
            t1 = datetime.datetime(t1.year, t1.month, min(t1.day, 28))
    case = {'kind': kind, 't0': t0.isoformat(), 't1': t1.isoformat(), 'bump': bump, 'big': big, 'via_calendar': rng.random() < 0.15, 'default_calendar_has_holidays': rng.random() < 0.3}
    if rng.random() < 0.25:
        case['warm_longer'] = True
    if kind in ('int', 'nd', 'td', 'td_intra', 'single_intra') and rng.random() < 0.12:
        case['tz'] = rng.choice([0, 330, -300, 60])
    if rng.random() < 0.2:
        # the endpoints as a caller may hold them: pandas Timestamp, numpy datetime64, ISO text, date
        case['t0f'] = rng.choice([None, 'Timestamp', 'dt64', 'str', 'date'])
        case['t1f'] = rng.choice([None, 'Timestamp', 'dt64', 'str', 'date'])
    return case


def gen_long_walk(rng):
    """a small step over a long span: lists of 10 to 25 thousand elements through the iterated-period branch"""
    day = datetime.datetime(rng.randint(1990, 2050), rng.randint(1, 12), rng.randint(1, 28), rng.randrange(24))
    bump, step = rng.choice([('-1n', -60), ('1h30n', 5400), ('-1h', -3600), ('-30s', -30), ('-1h-30n', -5400), ('10n5s', 605)])
    k = rng.randint(10050, 24000)
    t1 = day + datetime.timedelta(seconds=step * k + (1 if step > 0 else -1) * rng.choice([0, 7]))
    return {'kind': 'compound' if bump[1:].strip('0123456789')[1:] else 'single_intra', 't0': day.isoformat(), 't1': t1.isoformat(), 'bump': bump, 'big': True, 'long_walk': True}


def plan(tier, seed, n):
    per = 600 if tier == 'quick' else 25000
    return [{'n': per} for _ in range(n)]


def run(spec, ctx):
    for i in range(spec['n']):
        rng = random.Random('C10/%d/%d/%d' % (spec['seed'], spec['shard'], i))
        case = gen_case(rng) if i % 300 != 7 else gen_long_walk(rng)
        ctx.case(case)
        ctx.run_case(case, run_case)
        if ctx.full():
            break


def replay(case, ctx):
    ctx.case(case)
    ctx.run_case(case, run_case, shrink=False)
