"""C19 - container lifting maps leaf-wise, preserves shape, and is schedule independent (loop / zipper / as_list / waiter).

Monitor shape: lift(shape, companions) reference model with a call recorder as the leaf function; library text/number helpers
compared with the map of their own leaf behaviour; zipper/lens length model; waiter driven on a deterministic event loop through
EVERY completion order of its awaitables (the monitor logs the completion sequence actually observed)."""
import random, itertools, asyncio
import numpy as np
from .. import core, codec
from ..core import same, HarnessError, snap, snap_same

ID = 'C19'
TITLE = 'container lifting leaf-wise, shape preserving; waiter schedule independent'
LEVEL = 'exploration'
TECHNIQUE = 'runtime monitoring: lift(shape, companions) reference model with a recording leaf function; helper functions vs map of their own leaf behaviour; waiter driven through every completion order on a deterministic event loop'
LEVEL_TEXT = 'Held on the nestings/companions explored; waiter: all k! completion orders of each generated structure (k<=6 in thorough), completion sequence observed is logged. A check says held on K observed executions, never verified.'
LEVEL_NOTE = "Trusted: asyncio's event loop ordering for the driver; companions are generated to be unambiguous."
RULE = ('random nestings of list/tuple/dict/Dict/dictattr to depth 4 with scalar leaves; companions that are unambiguous (scalar/str/None, same-shape, top-level-only same length/keys, '
        'or a list/dict whose length/keys match no level) passed positionally, by keyword and mixed; library helpers on nested mixed leaves; zipper/lens over scalars and sequences of '
        'lengths 0..4; waiter over structures with k<=6 awaitables (Futures, coroutines, Tasks) under ALL k! completion orders; non-trivial = depth>=2 with >=1 positional companion, '
        'or a completion order different from creation order; distinct = canonical hash of (structure, companions, passing) or (structure, order)')
RULE_ALSO = "; added by the coverage audit and round 8: awaitables resolving to None / 0 / '' / False / a list, split with a container of dedup flags"
ASSUMPTIONS = ['companions are generated to be unambiguous: a container companion either matches the level it meets exactly (same length / same keys) or matches no level at all',
               'leaves are non-containers (tuples are containers for loop)', 'replace/split are exercised with scalar old/new/sep', 'waiter structures hold each awaitable once']


def required(tier):
    return {'lift_model': 400, 'lift_shape_types': 400, 'lib_helpers_map_leaves': 200, 'lib_helpers_leaf_oracle': 200, 'zipper_model': 200, 'lens_model': 200, 'as_list_idempotent': 100,
            'waiter_structure_values': 300, 'waiter_distinct_schedules': 100}


DICT_TAGS = ['dict', '$Dict', '$dictattr']


def is_cont(t):
    return isinstance(t, list) or (isinstance(t, dict))


def kind_of(t):
    if isinstance(t, list):
        return 'list'
    if isinstance(t, dict):
        if '$t' in t:
            return 'tuple'
        if len(t) == 1 and next(iter(t)) in ('$Dict', '$dictattr', '$idict'):
            return next(iter(t))
        return 'dict'
    return 'leaf'


def children(t):
    k = kind_of(t)
    if k == 'list':
        return list(range(len(t))), t
    if k == 'tuple':
        return list(range(len(t['$t']))), t['$t']
    if k == 'dict':
        return list(t.keys()), [t[x] for x in t]
    if k in ('$Dict', '$dictattr'):
        b = t[k]
        return list(b.keys()), [b[x] for x in b]
    if k == '$idict':
        b = t[k]
        return [int(x) for x in b], [b[x] for x in b]
    return None, None


def rebuild(t, vals):
    k = kind_of(t)
    if k == 'list':
        return list(vals)
    if k == 'tuple':
        return {'$t': list(vals)}
    if k == 'dict':
        return dict(zip(t.keys(), vals))
    return {k: dict(zip(t[k].keys(), vals))}          # ('$idict' keeps its string spellings of the int keys)


def gen_shape(rng, depth, leaf, maxd):
    r = rng.random()
    if depth >= maxd or (depth > 0 and r < 0.35):
        return leaf()
    n = rng.randint(0 if depth > 0 else 1, 4)
    k = rng.choice(['list', 'list', 'tuple', 'dict', 'dict', '$Dict', '$dictattr', '$idict'])
    if k == 'list':
        return [gen_shape(rng, depth + 1, leaf, maxd) for _ in range(n)]
    if k == 'tuple':
        return {'$t': [gen_shape(rng, depth + 1, leaf, maxd) for _ in range(n)]}
    if k == '$idict':
        # integer keys whose numeric order is not the order of their text (2 < 10 but '10' < '2')
        return {k: {str(key): gen_shape(rng, depth + 1, leaf, maxd) for key in rng.sample([2, 10, 9, 100, -1, -2, 21], n)}}
    body = {key: gen_shape(rng, depth + 1, leaf, maxd) for key in rng.sample(['a', 'b', 'c', 'd', 'e'], n)}
    return body if k == 'dict' else {k: body}


def depth_of(t):
    ks, cs = children(t)
    if ks is None:
        return 0
    return 1 + max([depth_of(c) for c in cs] + [0])


# ------------------------------------------------------------------ lifting model
def match(comp, x, key, pos):
    """element of companion `comp` matched to child `key` (position `pos`) of container x, or comp itself when it is broadcast"""
    kx = kind_of(x)
    if kx in ('list', 'tuple'):
        n = len(children(x)[0])
        if isinstance(comp, (list, tuple, np.ndarray)) and len(comp) == n:
            return comp[pos]
        return comp
    keys = children(x)[0]
    if isinstance(comp, dict) and len(comp) == len(keys) and set(comp.keys()) == set(keys):
        return comp[key]
    return comp


def lift_model(x_term, x, args, kw, f):
    ks, cs = children(x_term)
    if ks is None:
        return f(x, *args, **kw)
    out = []
    for pos, key in enumerate(ks):
        child_live = x[key] if not isinstance(x, (list, tuple)) else x[pos]
        out.append(lift_model(cs[pos], child_live, [match(a, x_term, key, pos) for a in args], {n: match(v, x_term, key, pos) for n, v in kw.items()}, f))
    if isinstance(x, (list, tuple)):
        return type(x)(out)
    return type(x)(dict(zip(ks, out)))


def run_lift(case, ctx):
    from pyg_base import loop
    log = []

    def leaf_fn(x, p='dp', q='dq'):
        log.append(x)
        return ('r', x, p, q)
    lifted = loop(list, tuple, dict)(leaf_fn)
    if case.get('relift'):
        # the function had been lifted before, over fewer container types: lifting it with loop(list, tuple, dict) is still lifting over all three
        inner = {'list': loop(list), 'tuple': loop(tuple), 'dict': loop(dict)}[case['relift']](leaf_fn)
        lifted = loop(list, tuple, dict)(inner)
        ctx.cls('lift:relifted_after_loop(%s)' % case['relift'])
    x = codec.dec(case['x'])
    comps = {n: codec.dec(t) for n, t in case['comps'].items()}
    snaps = (snap(x), {n: snap(v) for n, v in comps.items()})
    how = case['how']    # per companion: 'pos' | 'kw'; x: 'pos' | 'kw'
    args, kw = [], {}
    if how.get('p') == 'pos':
        args.append(comps['p'])
        if how.get('q') == 'pos':
            args.append(comps['q'])
        elif 'q' in comps:
            kw['q'] = comps['q']
    else:
        for n in ('p', 'q'):
            if n in comps:
                kw[n] = comps[n]
    if how['x'] == 'kw' and not args:
        st, got = ctx.call(lifted, x=x, **kw)
    else:
        st, got = ctx.call(lifted, x, *args, **kw)
    margs = [comps[n] for n in ('p', 'q') if how.get(n) == 'pos' and n in comps and (n == 'p' or how.get('p') == 'pos')]
    mkw = {n: comps[n] for n in comps if not (how.get(n) == 'pos' and (n == 'p' or how.get('p') == 'pos'))}
    exp = lift_model(case['x'], x, margs, mkw, lambda v, p='dp', q='dq': ('r', v, p, q))
    d = depth_of(case['x'])
    mech = None
    ok = st == 'ok' and same(got, exp)
    ctx.check('lift_model', ok, lambda: 'loop(list,tuple,dict)(f)(%r, companions %r passed %r) = %s %r\nleaf-wise model gives %r' % (case['x'], case['comps'], how, st, got if st == 'ok' else core.exc_str(got), exp), mech=mech)
    if st == 'ok':
        ctx.check('lift_shape_types', shape_sig(got, leaf_ok=lambda v: isinstance(v, tuple) and len(v) == 4 and v[0] == 'r') == shape_sig(x), lambda: 'shape/container types differ: %r vs input %r' % (got, case['x']))
    ctx.check('operands_unchanged', snap_same(snap(x), snaps[0]) and all(snap_same(snap(v), snaps[1][n]) for n, v in comps.items()), lambda: 'lifting modified its arguments')
    if d >= 2 and margs:
        ctx.mark_nontrivial(case)
        ctx.cls('lift:depth>=2+positional')
    ctx.cls('lift:depth%d' % d)
    for n, c in case['ckind'].items():
        ctx.cls('companion:' + c)


def shape_sig(v, leaf_ok=None):
    if leaf_ok and leaf_ok(v):
        return 'L'
    if isinstance(v, (list, tuple)):
        return (type(v).__name__, tuple(shape_sig(c, leaf_ok) for c in v))
    if isinstance(v, dict):
        return (type(v).__name__, tuple((k, shape_sig(dict.__getitem__(v, k), leaf_ok)) for k in v))
    return 'L'


def gen_companion(rng, x_term, kind):
    leafv = lambda: rng.choice([1, 2, 'u', None, 'w', 3.5])
    if kind == 'scalar':
        return leafv()
    if kind == 'same_shape':
        def rec(t):
            ks, cs = children(t)
            if ks is None:
                return rng.choice([10, 20, 's', None, 'tt'])
            vals = [rec(c) for c in cs]
            k = kind_of(t)
            if k in ('list', 'tuple'):
                return vals if rng.random() < 0.7 else {'$t': vals}
            if k == '$idict':
                return {'$idict': {str(kk): vv for kk, vv in zip(ks, vals)}}
            pairs = list(zip(ks, vals))
            if rng.random() < 0.4:
                rng.shuffle(pairs)          # the same keys written in another order: dicts are matched by key
            return dict(pairs)
        return rec(x_term)
    if kind == 'top_only':
        ks, cs = children(x_term)
        vals = [rng.choice([100, 200, 'm', None]) for _ in ks]
        if kind_of(x_term) in ('list', 'tuple'):
            return vals
        if kind_of(x_term) == '$idict':
            return {'$idict': {str(kk): vv for kk, vv in zip(ks, vals)}}
        pairs = list(zip(ks, vals))
        if rng.random() < 0.4:
            rng.shuffle(pairs)
        return dict(pairs)
    if kind == 'odd_list':
        return [rng.choice([7, 8, 'o']) for _ in range(7)]
    if kind == 'odd_tuple':
        n = len(children(x_term)[0]) if kind_of(x_term) in ('list', 'tuple') else 2
        m = rng.choice([k_ for k_ in (0, 1, 3, 5, 7) if k_ != n])
        return {'$t': [rng.choice([7, 8, 'o']) for _ in range(m)]}
    if kind == 'np_same_len':
        # a numpy array as long as the looped list: matched element by element like a list, however it is passed
        n = len(children(x_term)[0])
        return {'$arr': ['int64', [10 * (i + 1) for i in range(n)]]}
    if kind == 'square':
        # a 7 x 7 nesting next to levels that are never 7 long: nothing in it matches any level, it is broadcast whole
        return [[7 * i + j for j in range(7)] for i in range(7)]
    if kind == 'odd_dict':
        return {'zz1': 1, 'zz2': 'x'}
    if kind == 'dict_tied_list':
        # a dict companion (its keys match no level of x) holding a list as long as the top level of x: still one value, broadcast whole
        n = len(children(x_term)[0])
        return {'zz1': [rng.choice([51, 52, 'dl']) for _ in range(n)], 'zz2': 5, 'zz3': {'$t': [rng.choice([61, 62]) for _ in range(n)]}}
    if kind == 'overlap_dict':
        # same number of keys as some dict level of x, partially overlapping key set, scalar values => must be broadcast whole
        levels = []

        def walk(t):
            ks, cs = children(t)
            if ks is None:
                return
            if kind_of(t) not in ('list', 'tuple') and len(ks) >= 1:
                levels.append(ks)
            for c in cs:
                walk(c)
        walk(x_term)
        if not levels:
            return {'zz1': 1}
        ks = list(rng.choice(levels))
        if isinstance(ks[0], int):
            ks[rng.randrange(len(ks))] = 777
            return {'$idict': {str(k): rng.choice([31, 32, 'ov']) for k in ks}}
        ks[rng.randrange(len(ks))] = 'zq'
        return {k: rng.choice([31, 32, 'ov']) for k in ks}
    if kind == 'near_list':
        n = len(children(x_term)[0]) if kind_of(x_term) in ('list', 'tuple') else 2
        m = max(0, n + rng.choice([-1, 1]))
        return [rng.choice([41, 42, 'nl']) for _ in range(m)]
    raise HarnessError(kind)


def gen_lift_case(rng):
    leaf = lambda: rng.choice([0, 1, 2, 'x', 'y', None, 2.5, ''])
    x = gen_shape(rng, 0, leaf, rng.randint(1, 4))
    if rng.random() < 0.05:
        x = rng.choice([[], {'$t': []}, {}, {'$Dict': {}}])       # an empty container is a container: the result is the empty container of that type
    comps, ckind = {}, {}
    for n in rng.choice([[], ['p'], ['p'], ['p', 'q'], ['q']]):
        k = rng.choice(['scalar', 'same_shape', 'same_shape', 'top_only', 'odd_list', 'odd_dict', 'overlap_dict', 'overlap_dict', 'near_list', 'odd_tuple'])
        if k == 'top_only' and len(children(x)[0]) in (0, 7):
            k = 'scalar'
        if kind_of(x) in ('list', 'tuple') and len(children(x)[0]) >= 1 and rng.random() < 0.12:
            k = 'dict_tied_list'
        elif kind_of(x) in ('list', 'tuple') and len(children(x)[0]) >= 2 and depth_of(x) == 1 and rng.random() < 0.15:
            k = 'np_same_len'
        elif rng.random() < 0.08:
            k = 'square'
        if k == 'top_only':
            # top-level-only companions must not accidentally match deeper levels: their elements are scalars, fine
            pass
        comps[n] = gen_companion(rng, x, k)
        ckind[n] = k
    how = {'x': rng.choice(['pos', 'pos', 'kw'])}
    for n in comps:
        how[n] = rng.choice(['pos', 'kw'])
    case = {'kind': 'lift', 'x': x, 'comps': comps, 'ckind': ckind, 'how': how}
    if rng.random() < 0.12:
        case['relift'] = rng.choice(['list', 'tuple', 'dict'])
    return case


# ------------------------------------------------------------------ library helpers
def map_leaves(t, f):
    if isinstance(t, (list, tuple)):
        return type(t)([map_leaves(c, f) for c in t])
    if isinstance(t, dict):
        return type(t)({k: map_leaves(dict.__getitem__(t, k), f) for k in t})
    return f(t)


def exact(a, b):
    """same container types and keys; leaves the very same object or equal values of the same concrete type"""
    if isinstance(b, (list, tuple)):
        return type(a) is type(b) and len(a) == len(b) and all(exact(p, q) for p, q in zip(a, b))
    if isinstance(b, dict):
        return type(a) is type(b) and list(a.keys()) == list(b.keys()) and all(exact(dict.__getitem__(a, k), dict.__getitem__(b, k)) for k in b)
    return a is b or (type(a) is type(b) and a == b and repr(a) == repr(b))


_isstr = lambda v: type(v) is str
# what each helper does to ONE leaf, written from its documentation, independent of the library (non-strings / non-floats come back as the very same object)
LEAF_ORACLE = {
    'lower': lambda v: v.lower() if _isstr(v) else v,
    'upper': lambda v: v.upper() if _isstr(v) else v,
    'strip': lambda v: v.strip() if _isstr(v) else v,
    'capitalize': lambda v: v.capitalize() if _isstr(v) else v,
    'proper': lambda v: ' '.join(t.capitalize() for t in v.split(' ')) if _isstr(v) else v,
    'f12': lambda v: ('%1.2f' % v) if isinstance(v, (float, np.floating)) else v,
    'replace': lambda v: v.replace('a', 'Q') if _isstr(v) else v,
    'replace_kw': lambda v: v.replace('b', '') if _isstr(v) else v,
}


def run_helpers(case, ctx):
    import pyg_base as pb
    x = codec.dec(case['x'])
    s0 = snap(x)
    for name, orc in LEAF_ORACLE.items():
        call = {'replace': lambda v: pb.replace(v, 'a', 'Q'), 'replace_kw': lambda v: pb.replace(v, old='b', new='')}.get(name) or getattr(pb, name)
        exp = map_leaves(x, orc)
        st, got = ctx.call(call, x)
        ctx.check('lib_helpers_leaf_oracle', st == 'ok' and exact(got, exp), lambda: '%s(%r) = %s %r, leaf by leaf it should be %r' % (name, case['x'], st, got, exp))
    for name, call in (('lower', lambda v: pb.lower(v)), ('upper', lambda v: pb.upper(v)), ('strip', lambda v: pb.strip(v)), ('proper', lambda v: pb.proper(v)),
                       ('f12', lambda v: pb.f12(v)), ('as_float', lambda v: pb.as_float(v)), ('replace', lambda v: pb.replace(v, 'a', 'Q')), ('replace_kw', lambda v: pb.replace(v, old='b', new='')),
                       ('split', lambda v: pb.split(v, ' ')), ('split_dedup', lambda v: pb.split(v, sep=' ', dedup=True)), ('capitalize', lambda v: pb.capitalize(v))):
        st, got = ctx.call(call, x)
        exp = map_leaves(x, call)
        ctx.check('lib_helpers_map_leaves', st == 'ok' and same(got, exp), lambda: '%s(%r) = %s %r, map over leaves gives %r' % (name, case['x'], st, got, exp))
    # as_float against its own rule where that rule is plain: a text holding no digit comes back as the very text it was (not as another text that
    # merely looks like it once blanks and commas are dropped), a blank text as None, a non-text as it is
    flat_in, flat_out = [], []
    map_leaves(x, lambda v: flat_in.append(v))
    st_af, got_af = ctx.call(pb.as_float, x)
    if st_af == 'ok':
        map_leaves(got_af, lambda v: flat_out.append(v))
    okaf = st_af == 'ok' and len(flat_in) == len(flat_out)
    if okaf:
        for vi, vo in zip(flat_in, flat_out):
            if _isstr(vi):
                if not any(ch.isdigit() for ch in vi):
                    okaf = okaf and ((vo is None) if not vi.replace(',', '').replace(' ', '') else (type(vo) is str and vo == vi))
            else:
                okaf = okaf and (vo is vi or (type(vo) is type(vi) and (vo == vi or vo != vo)))
    ctx.check('lib_helpers_leaf_oracle', okaf, lambda: 'as_float(%r) = %s %r: a text without digits comes back unchanged, a blank one as None, a non-text as it is' % (case['x'], st_af, got_af))
    ctx.check('operands_unchanged', snap_same(snap(x), s0), lambda: 'helper modified its argument')
    if depth_of(case['x']) >= 2:
        ctx.mark_nontrivial(case)
    ctx.cls('helpers')


def run_replace_list(case, ctx):
    """replace() with a LIST of patterns: a companion like any other (matched element by element where its length ties with a list level, broadcast otherwise);
    at a leaf the patterns are applied one after the other in the order given; the caller's list is not touched"""
    import pyg_base as pb
    x = codec.dec(case['x'])
    old = list(case['old'])
    new = case['new']
    keep = list(old)

    def leaf(text, old, new=None):
        if type(text) is str:
            for arg in (old if isinstance(old, list) else [old]):
                while arg in text:
                    text = text.replace(arg, new or '')
        return text
    exp = lift_model(case['x'], x, [keep], {'new': new}, leaf)
    s0 = snap(x)
    st, got = ctx.call(pb.replace, x, old, new) if case.get('pos') else ctx.call(pb.replace, x, old=old, new=new)
    ctx.check('lib_helpers_leaf_oracle', st == 'ok' and exact(got, exp), lambda: 'replace(%r, %r, %r) = %s %r, pattern by pattern in the order given it should be %r' % (case['x'], keep, new, st, got, exp))
    ctx.check('operands_unchanged', old == keep and snap_same(snap(x), s0), lambda: 'replace reordered / edited the pattern list it was given: %r -> %r' % (keep, old))
    # the same list object used again
    st2, got2 = ctx.call(pb.replace, x, old, new)
    ctx.check('lib_helpers_leaf_oracle', st2 == 'ok' and exact(got2, exp), lambda: 'replace called again with the same pattern list object: %s %r, expected %r' % (st2, got2, exp))
    ctx.cls('helpers:replace_with_pattern_list')
    if depth_of(case['x']) >= 2:
        ctx.mark_nontrivial(case)


def run_split_flags(case, ctx):
    """split() with its dedup flag given as a CONTAINER of flags shaped like the text structure: a companion like any other, matched element by element"""
    import pyg_base as pb
    x = codec.dec(case['x'])
    flags = codec.dec(case['flags'])

    def leaf(text, sep=' ', dedup=False):
        if type(text) is str:
            res = text.split(sep)
            return [w for w in res if w] if dedup else res
        return text
    s0, f0 = snap(x), snap(flags)
    if case.get('pos'):
        exp = lift_model(case['x'], x, [' ', flags], {}, leaf)
        st, got = ctx.call(pb.split, x, ' ', flags)
    else:
        exp = lift_model(case['x'], x, [], {'sep': ' ', 'dedup': flags}, leaf)
        st, got = ctx.call(pb.split, x, sep=' ', dedup=flags)
    ctx.check('lib_helpers_leaf_oracle', st == 'ok' and exact(got, exp), lambda: 'split(%r, " ", dedup = %r) = %s %r, flag by flag it should be %r' % (case['x'], case['flags'], st, got, exp))
    ctx.check('operands_unchanged', snap_same(snap(x), s0) and snap_same(snap(flags), f0), lambda: 'split modified an argument')
    ctx.cls('helpers:split_with_a_container_of_flags')
    ctx.mark_nontrivial(case)


def mirror_flags(t, rng):
    ks, cs = children(t)
    if ks is None:
        return rng.random() < 0.5
    return rebuild(t, [mirror_flags(c, rng) for c in cs])


# ------------------------------------------------------------------ zipper / lens / as_list
def run_zip(case, ctx):
    import numpy as np
    from pyg_base import zipper, lens, as_list, as_tuple
    vals = [codec.dec(v) for v in case['vals']]
    live = []
    for v, how in zip(vals, case['forms']):
        if how == 'tuple' and isinstance(v, list):
            v = tuple(v)
        elif how == 'range' and isinstance(v, list):
            v = range(len(v))
        elif how == 'array' and isinstance(v, list) and all(isinstance(e, (int, float)) for e in v):
            v = np.array(v)
        elif how == 'tuple1_of_list' and isinstance(v, list):
            v = (v,)          # a length-1 sequence whose only element happens to be a list: broadcast as one element
        elif how == 'list1_of_list' and isinstance(v, list):
            v = [v]
        elif how == 'values_view' and isinstance(v, list):
            v = {i: e for i, e in enumerate(v)}.values()         # the values of a dict: a sequence like any other
        elif how == 'values_view1_of_list' and isinstance(v, list):
            v = {'only': v}.values()                              # ... of ONE entry that happens to hold a list: a length-1 sequence, broadcast as one element
        live.append(v)
    views = (type({}.values()), type({}.keys()))
    seqs = [list(v) if isinstance(v, (list, tuple, range, np.ndarray) + views) else [v] for v in live]
    lengths = [len(s) for s in seqs]
    S = set(lengths) - {1}
    st, got = ctx.call(lambda: list(zipper(*live)))
    stl, gl = ctx.call(lens, *[(list(v) if isinstance(v, views) else v) if isinstance(v, (list, tuple, range, np.ndarray) + views) else [v] for v in live])
    if len(S) > 1:
        ctx.check('zipper_model', st == 'exc' and isinstance(got, ValueError), lambda: 'zipper over lengths %s -> %s %r (expected ValueError)' % (lengths, st, got))
        ctx.check('lens_model', stl == 'exc' and isinstance(gl, ValueError), lambda: 'lens over lengths %s -> %s %r (expected ValueError)' % (lengths, stl, gl))
    else:
        n = (S.pop() if S else 1) if live else 0
        exp = [tuple(s[0] if len(s) == 1 else s[i] for s in seqs) for i in range(n)] if live else []
        ctx.check('zipper_model', st == 'ok' and len(got) == len(exp) and all(same(tuple(a), b) or all(x == y for x, y in zip(a, b)) for a, b in zip(got, exp)), lambda: 'zipper(%r) = %s %r, model %r' % (live, st, got, exp))
        ctx.check('lens_model', stl == 'ok' and gl == n, lambda: 'lens over lengths %s = %s %r, model %d' % (lengths, stl, gl, n))
    extra = [[[1, 2]], [[]], [[[1, 2]]], ([1, 2],), ((1, 2),), [(1, 2)], [[1], [2]], ([1], [2]), [None], (None,), [[None]]] if case.get('nested_norm') else []
    for v in [v_ for v_ in live if not isinstance(v_, views)] + extra:
        for fn, tp in ((as_list, list), (as_tuple, tuple)):
            st1, once = ctx.call(fn, v)
            st2, twice = ctx.call(lambda: fn(fn(v)))
            okk = st1 == st2 == 'ok' and type(once) is tp and type(twice) is tp and len(once) == len(twice) and all(a is b or same(a, b) for a, b in zip(once, twice))
            mech = None
            if not okk and fn is as_tuple and st1 == st2 == 'ok' and isinstance(once, tuple) and len(once) == 1 and isinstance(once[0], list) and twice == tuple(once[0]):
                mech = 'as_tuple-of-single-list-element-unwraps-on-second-application'
            ctx.check('as_list_idempotent', okk, lambda: '%s(%r) = %r ; twice = %r' % (fn.__name__, v, once, twice), mech=mech)
    if len(set(lengths)) > 1:
        ctx.mark_nontrivial(case)
    ctx.cls('zip:' + ('mismatch' if len(S) > 1 else 'ok'))


def gen_zip_case(rng):
    k = rng.randint(0, 4)
    vals, forms = [], []
    base = rng.choice([0, 1, 2, 3, 4]) if rng.random() > 0.03 else rng.choice([40, 130])       # a few long sequences in every tier
    for _ in range(k):
        r = rng.random()
        if r < 0.3:
            vals.append(rng.choice([5, 'str', None, 2.5]))
            forms.append('scalar')
        else:
            n = base if rng.random() < 0.6 else rng.choice([0, 1, 2, 3, 4])
            vals.append([rng.choice([1, 2, 3, 'a']) for _ in range(n)])
            forms.append(rng.choice(['list', 'tuple', 'range', 'array', 'list', 'list', 'tuple', 'tuple1_of_list', 'list1_of_list', 'values_view', 'values_view1_of_list']))
    return {'kind': 'zip', 'vals': vals, 'forms': forms, 'nested_norm': rng.random() < 0.3}


# ------------------------------------------------------------------ waiter
def run_waiter(case, ctx):
    from pyg_base import waiter
    struct_t = case['struct']     # term with {'$aw': i, 'form': ...} leaves
    order = case['order']
    k = len(order)
    resvals = case.get('resvals')         # what each awaitable resolves to: any value at all, None and other falsy ones included

    def rv(i):
        return ('v%d' % i) if not resvals else {'none': None, 'zero': 0, 'empty': '', 'false': False, 'list': [i], 'v': 'v%d' % i}[resvals[i % len(resvals)]]
    loop = asyncio.new_event_loop()
    completed = []
    try:
        futs = [loop.create_future() for _ in range(k)]
        for i, f in enumerate(futs):
            f.add_done_callback(lambda _f, i=i: completed.append(i))

        events = [asyncio.Event() for _ in range(k)]
        pred = {order[j]: (order[j - 1] if j else None) for j in range(k)}

        async def chained(i):
            # completes only after its predecessor in the prescribed completion order has completed: needs all awaitables to run concurrently
            if pred[i] is not None:
                await events[pred[i]].wait()
            await asyncio.sleep(0)
            if not futs[i].done():
                futs[i].set_result(rv(i))
            events[i].set()
            return rv(i)

        async def via_coro(i):
            v = await futs[i]
            return v

        class Custom(object):
            def __init__(self, i):
                self.i = i

            def __await__(self):
                return futs[self.i].__await__()
        tasks = []

        def build(t):
            if isinstance(t, dict) and '$aw' in t:
                i, form = t['$aw'], t['form']
                if form == 'future':
                    return futs[i]
                if form == 'coro':
                    return via_coro(i)
                if form == 'chained':
                    return chained(i)
                if form == 'task':
                    tk = loop.create_task(via_coro(i)); tasks.append(tk)
                    return tk
                return Custom(i)
            ks, cs = children(t)
            if ks is None:
                return t
            vals = [build(c) for c in cs]
            kk = kind_of(t)
            if kk == 'list':
                return vals
            if kk == 'tuple':
                return tuple(vals)
            body = dict(zip(ks, vals))
            if kk in ('dict', '$idict'):
                return body
            import pyg_base
            return getattr(pyg_base, kk[1:])(body)

        def expect(t):
            if isinstance(t, dict) and '$aw' in t:
                return rv(t['$aw'])
            ks, cs = children(t)
            if ks is None:
                return t
            vals = [expect(c) for c in cs]
            kk = kind_of(t)
            if kk == 'list':
                return vals
            if kk == 'tuple':
                return tuple(vals)
            body = dict(zip(ks, vals))
            if kk in ('dict', '$idict'):
                return body
            import pyg_base
            return getattr(pyg_base, kk[1:])(body)

        all_chained = case.get('chained')

        async def driver():
            if all_chained:
                return
            for i in order:
                await asyncio.sleep(0)
                await asyncio.sleep(0)
                futs[i].set_result(rv(i))

        async def main():
            structure = build(struct_t)
            if case.get('alias'):
                # the same container object is reachable from several places of the structure handed over
                structure = {'a': structure, 'b': [structure]} if case['alias'] == 'dict' else [structure, (structure, 0)]
            res, _ = await asyncio.gather(waiter(structure), driver())
            return res
        st, got = ctx.call(lambda: loop.run_until_complete(asyncio.wait_for(main(), 5 if case.get('chained') else 20)))
    finally:
        try:
            pend = [t for t in asyncio.all_tasks(loop) if not t.done()]
            for t in pend:
                t.cancel()
            if pend:
                loop.run_until_complete(asyncio.gather(*pend, return_exceptions=True))
        except Exception:
            pass
        loop.close()
    exp = expect(struct_t)
    if case.get('alias'):
        exp = {'a': exp, 'b': [expect(struct_t)]} if case['alias'] == 'dict' else [exp, (expect(struct_t), 0)]
        ctx.cls('waiter:aliased_container')
    if st == 'exc' and isinstance(got, (asyncio.TimeoutError, TimeoutError)) and case.get('chained'):
        ctx.ev('waiter_structure_values')
        ctx.fail('waiter_structure_values', 'waiter(%r) never returned when its awaitables had to complete in the order %s (they only make progress if all of them are run concurrently)' % (struct_t, order))
        return
    ctx.check('waiter_structure_values', st == 'ok' and same(got, exp), lambda: 'waiter(%r) under completion order %s = %s %r, expected %r' % (struct_t, order, st, got if st == 'ok' else core.exc_str(got), exp))
    def keys_in_order(a, b):
        # 'the same nested structure': a dict comes back with its keys in the order it had, whatever order its awaitables completed in
        if isinstance(b, dict):
            return isinstance(a, dict) and list(a.keys()) == list(b.keys()) and all(keys_in_order(dict.__getitem__(a, k_), dict.__getitem__(b, k_)) for k_ in b)
        if isinstance(b, (list, tuple)):
            return isinstance(a, (list, tuple)) and len(a) == len(b) and all(keys_in_order(x_, y_) for x_, y_ in zip(a, b))
        return True
    if st == 'ok' and same(got, exp):
        ctx.check('waiter_structure_values', keys_in_order(got, exp), lambda: 'waiter(%r) under completion order %s: the dicts of the result list their keys in another order than the structure handed over: %r' % (struct_t, order, got))
    ctx.check('waiter_distinct_schedules', completed == list(order), lambda: 'harness: completion sequence observed %s != prescribed %s' % (completed, order))
    if list(order) != sorted(order):
        ctx.mark_nontrivial(case)
    ctx.cls('waiter:k=%d' % k)


def gen_waiter_struct(rng, k):
    counter = [0]
    forms = ['future', 'future', 'coro', 'task', 'custom']

    def leaf():
        if counter[0] < k and rng.random() < 0.6:
            counter[0] += 1
            return {'$aw': counter[0] - 1, 'form': rng.choice(forms)}
        return rng.choice([1, 'x', None])
    for _ in range(50):
        counter[0] = 0
        s = gen_shape(rng, 0, leaf, rng.randint(1, 3))
        if counter[0] == k:
            return s
    counter[0] = 0
    return [{'$aw': i, 'form': rng.choice(forms)} for i in range(k)]


def run_axis(case, ctx):
    """a companion is a companion whatever the parameter is called - also when it is called `axis`"""
    from pyg_base import loop
    f = lambda x, axis='da': ('r', x, axis)
    lifted = loop(list, tuple, dict)(f)
    x = codec.dec(case['x'])
    comp = codec.dec(case['comp'])
    st, got = ctx.call(lifted, x, axis=comp) if case['by'] == 'kw' else ctx.call(lifted, x, comp)
    exp = lift_model(case['x'], x, [comp], {}, lambda v, a='da': ('r', v, a))
    mech = None
    if st == 'ok' and not same(got, exp) and case['by'] == 'kw' and same(got, lift_model(case['x'], x, [], {}, lambda v, a='da': ('r', v, a))):
        mech = 'loop-consumes-a-keyword-called-axis'           # known finding: the wrapper pops `axis` for itself, the leaf function runs with its default
    ctx.check('lift_model', st == 'ok' and same(got, exp), lambda: 'loop(list,tuple,dict)(f)(%r, axis=%r passed %s) = %s %r, model %r' % (case['x'], case['comp'], case['by'], st, got, exp), mech=mech)
    ctx.cls('lift:companion_called_axis')


def run_case(case, ctx):
    if case['kind'] == 'axis':
        return run_axis(case, ctx)
    return {'lift': run_lift, 'helpers': run_helpers, 'zip': run_zip, 'waiter': run_waiter, 'replace_list': run_replace_list, 'split_flags': run_split_flags}[case['kind']](case, ctx)


def plan(tier, seed, n):
    per, nw, cap = (600, 5, 60) if tier == 'quick' else (25000, 120, 720)
    return [{'n': per, 'nw': nw, 'cap': cap} for _ in range(n)]


def run(spec, ctx):
    for i in range(spec['n']):
        rng = random.Random('C19/%d/%d/%d' % (spec['seed'], spec['shard'], i))
        r = rng.random()
        if r < 0.6:
            case = gen_lift_case(rng)
        elif r < 0.8:
            pool = ['Abc def', ' x ', 'a b  c', 1, 2.5, None, '1.3k', '50%', 'abab', '', 1234.5678, 'A,b', 'Abcdef', 'Ab', 'x', 'ab  c', 'a,b c', 'New York', 'NewYork']
            if rng.random() < 0.4:      # leaves that are == and hash-equal but of different kinds
                pool = pool + [True, 1.0, False, 0.0, {'$np': ['int64', 4]}, 4.0, 4, {'$np': ['float64', 2.5]}, -0.0, 0.0, True, 1.0]
            leaf = lambda: rng.choice(pool)
            case = {'kind': 'helpers', 'x': gen_shape(rng, 0, leaf, rng.randint(1, 4))}
            if rng.random() < 0.25:
                tl = lambda: rng.choice(['a-b::c', 'a.b', 'x - y', 'ab.ab', 'zzz', '', 'a::b--c', 1, None, 'a b.c'])
                case = {'kind': 'replace_list', 'x': gen_shape(rng, 0, tl, rng.randint(0, 3)), 'old': rng.sample(['-', '::', '.', 'ab', ' ', 'a.b', '--'], rng.randint(2, 3)), 'new': rng.choice([None, '', '_', '+']), 'pos': rng.random() < 0.5}
        else:
            case = gen_zip_case(rng)
            if rng.random() < 0.12:
                tl = lambda: rng.choice(['a  b', 'c d', ' x', 'p   q r', 'one', '', 1, None, 'u  v  w'])
                xs_ = gen_shape(rng, 0, tl, rng.randint(1, 3))
                fl_ = mirror_flags(xs_, rng)
                if rng.random() < 0.3 and isinstance(xs_, list):
                    fl_ = [rng.random() < 0.5 for _ in xs_]        # flags for the top level only: each one is broadcast below
                case = {'kind': 'split_flags', 'x': xs_, 'flags': fl_, 'pos': rng.random() < 0.5}
        ctx.case(case)
        ctx.run_case(case, run_case)
        if ctx.full():
            return
    for x_, comp_ in (([1, 2], [10, 20]), ([1, 2], 7), ({'a': 1, 'b': 2}, {'a': 10, 'b': 20}), ({'$t': [1, 2, 3]}, 'c'), ([[1, 2], [3]], [10, 20])):
        for by in ('kw', 'pos'):
            case = {'kind': 'axis', 'x': x_, 'comp': comp_, 'by': by}
            ctx.case(case)
            ctx.run_case(case, run_case)
    for i in range(spec['nw']):
        rng = random.Random('C19w/%d/%d/%d' % (spec['seed'], spec['shard'], i))
        k = rng.choice([1, 2, 3, 4, 4, 5, 6]) if spec['tier'] == 'thorough' else rng.choice([2, 3, 4, 5])
        s = gen_waiter_struct(rng, k)
        chained_struct = None
        if i % 3 == 2:
            def to_chained(t):
                if isinstance(t, dict) and '$aw' in t:
                    return {'$aw': t['$aw'], 'form': 'chained'}
                ks_, cs_ = children(t)
                if ks_ is None:
                    return t
                return rebuild(t, [to_chained(c) for c in cs_])
            chained_struct = to_chained(s)
        orders = list(itertools.permutations(range(k)))
        if len(orders) > spec['cap']:
            orders = rng.sample(orders, spec['cap'])
        else:
            ctx.cls('waiter:structures_all_orders')
        resvals = [rng.choice(['none', 'zero', 'empty', 'false', 'list', 'v', 'none']) for _ in range(max(k, 1))] if i % 2 == 0 else None
        for order in orders:
            case = {'kind': 'waiter', 'struct': s, 'order': list(order)}
            if resvals:
                case['resvals'] = resvals
            if chained_struct is not None:
                case = {'kind': 'waiter', 'struct': chained_struct, 'order': list(order), 'chained': True}
                if resvals:
                    case['resvals'] = resvals
            elif i % 3 == 1 and "'coro'" not in repr(s):       # futures, tasks and custom awaitables may be awaited from several places
                case['alias'] = 'dict' if i % 2 else 'list'
            ctx.case(case)
            ctx.run_case(case, run_case)
            if ctx.full():
                return


def replay(case, ctx):
    ctx.case(case)
    ctx.run_case(case, run_case, shrink=False)
