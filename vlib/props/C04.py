"""C04 - dt() maps every supported spelling of an instant to the same datetime.

Monitor shape: the oracle is the instant itself; the workload enumerates calendar days (thorough: the whole 400-year cycle,
exhaustive) and for each day ~45 spellings + wrong-dialect rejections + dt2str/ymd round trips; plus the month/day overflow grid."""
import random, datetime
import numpy as np
from .. import core
from ..core import HarnessError

ID = 'C04'
TITLE = 'dt() maps every spelling of an instant to the same datetime'
LEVEL = 'exploration'
TECHNIQUE = 'runtime monitoring: oracle = the instant itself; exhaustive sweep of every day of the 400-year cycle through ~45 spellings, wrong-dialect rejections, dt2str/ymd round trips, overflow grid'
LEVEL_TEXT = 'Thorough enumerates the whole finite domain of days (exhaustive over days x listed spellings); quick samples it. A check says held on K observed executions, never verified.'
LEVEL_NOTE = 'Trusted: datetime/strftime for rendering spellings; numpy [ns] only below year 2262; C locale month names.'
RULE = ('a case is one calendar day (with one random intraday instant) pushed through every supported spelling; quick: all days of 1900, 1999-2001, 2100, 2299, '
        'every month\'s 1st/12th/13th/last over 1900-2299, all leap days and 3000 random days; thorough: EVERY day of [1900-01-01, 2300-01-01) (exhaustive) plus the '
        'full month/day overflow grid; non-trivial day = ambiguous (day<=12, day!=month) or unambiguous (day>12, where the wrong dialect must be rejected); distinct = distinct day')
RULE_ALSO = "; added by the coverage audit and round 8: dialect spelt 'UK' / 'US', dt2str format spellings (separators, strftime letters, 'iso') round trip, numpy units ms / h / m"
ASSUMPTIONS = ['numpy datetime64[ns] spellings only for years < 2262 (ns range)', 'month-name strings in the C/English locale', 'no timezone-aware inputs', 'time-bearing d-m-y strings are compared at second resolution']
TMIN = datetime.date(1900, 1, 1)
NDAYS = 146097
SEPS = ['-', '/', '.', ' ']


def required(tier):
    return {'spelling_equals_instant': 100000, 'wrong_dialect_rejected': 10000, 'dt2str_roundtrip': 5000, 'ymd_drops_time': 2000, 'overflow_law': 60000}


def exhaustive(tier):
    return tier == 'thorough'


def exhaustive_note(tier):
    return 'thorough enumerates all 146097 days of 1900-01-01..2299-12-31 and the whole (m in [-36,48]) x (d in [-400,400]) grid for 4 years' if tier == 'thorough' else 'quick samples days'


def check_day(ctx, day, tod):
    from pyg_base import dt, ymd, dt2str
    import pandas as pd
    y, m, d = day.year, day.month, day.day
    D = datetime.datetime(y, m, d)
    h, mi, s, us = tod
    T = datetime.datetime(y, m, d, h, mi, s, us)
    Ts = T.replace(microsecond=0)
    term = {'day': day.isoformat(), 'tod': list(tod)}
    ctx.case(term, nontrivial=(d > 12 or d != m), sample=False)
    if len(ctx.samples) < 2 and d > 12:
        ctx.samples.append(term)

    def eq(name, f, exp):
        ctx.monitors['spelling_equals_instant'] += 1
        try:
            got = f()
        except Exception as e:
            mech = None
            ctx.fail('spelling_equals_instant', '%s for %s raised %s' % (name, exp, core.exc_str(e)), mech=mech, case=dict(term, spelling=name))
            return
        if not (isinstance(got, datetime.datetime) and got == exp and got.tzinfo is None):
            ctx.fail('spelling_equals_instant', '%s -> %r, expected %r' % (name, got, exp), case=dict(term, spelling=name))

    def rej(name, f):
        ctx.monitors['wrong_dialect_rejected'] += 1
        try:
            got = f()
        except ValueError:
            # a rejected call leaves nothing behind: year-first and valid dialect strings with day <= 12 still read the same straight afterwards
            A = datetime.datetime(y, 3, 10)
            eq('iso date right after the rejected %s' % name, lambda: dt('%04d-03-10' % y), A)
            eq('yyyymmdd right after the rejected %s' % name, lambda: dt('%04d0310' % y), A)
            eq('us string right after the rejected %s' % name, lambda: dt('03/10/%04d' % y, dialect='us'), A)
            return
        except Exception as e:
            ctx.fail('wrong_dialect_rejected', '%s raised %s instead of ValueError' % (name, core.exc_str(e)), case=dict(term, spelling=name))
            return
        ctx.fail('wrong_dialect_rejected', '%s silently returned %r' % (name, got), case=dict(term, spelling=name))

    eq('datetime', lambda: dt(D), D)
    eq('date', lambda: dt(day), D)
    eq('y,m,d', lambda: dt(y, m, d), D)
    eq('yyyymmdd int', lambda: dt(y * 10000 + m * 100 + d), D)
    eq('ordinal', lambda: dt(day.toordinal()), D)
    eq('np[D]', lambda: dt(np.datetime64(day.isoformat(), 'D')), D)
    eq('pd.Timestamp(date)', lambda: dt(pd.Timestamp(D)), D)
    eq('iso date', lambda: dt('%04d-%02d-%02d' % (y, m, d)), D)
    eq('yyyymmdd str', lambda: dt('%04d%02d%02d' % (y, m, d)), D)
    for sep in SEPS:
        uk_p = '%02d%s%02d%s%04d' % (d, sep, m, sep, y); uk_u = '%d%s%d%s%04d' % (d, sep, m, sep, y)
        us_p = '%02d%s%02d%s%04d' % (m, sep, d, sep, y); us_u = '%d%s%d%s%04d' % (m, sep, d, sep, y)
        eq('uk %r' % uk_p, lambda: dt(uk_p), D)
        eq('uk %r' % uk_u, lambda: dt(uk_u), D)
        eq('us %r' % us_p, lambda: dt(us_p, dialect='us'), D)
        eq('us %r' % us_u, lambda: dt(us_u, dialect='us'), D)
        eq('US %r' % us_p, lambda: dt(us_p, dialect='US'), D)          # the dialect as the docstring spells it
        eq('UK %r' % uk_p, lambda: dt(uk_p, dialect='UK'), D)          # ... and the other one spelt the same way
        if d > 12:
            rej('us-string %r read as UK' % us_p, lambda: dt(us_p, dialect='UK'))
        if d > 12:
            rej('uk-string %r read as US' % uk_p, lambda: dt(uk_p, dialect='US'))
        if d > 12:
            rej('uk-string %r read as us' % uk_p, lambda: dt(uk_p, dialect='us'))
            rej('us-string %r read as uk' % us_p, lambda: dt(us_p))
            rej('uk-string %r read as us' % uk_u, lambda: dt(uk_u, dialect='us'))
            rej('us-string %r read as uk' % us_u, lambda: dt(us_u))
    # day-month / month-day strings that carry a time of day, to the second and to the microsecond: the same instant, the same rejection of the other dialect
    for sep in (SEPS[(d + m) % len(SEPS)],):
        if sep == ' ':
            sep = '-'
        for tail_, exp_ in ((' %02d:%02d:%02d' % (h, mi, s), Ts), (' %02d:%02d:%02d.%06d' % (h, mi, s, us), T), (' %02d:%02d' % (h, mi), Ts.replace(second=0))):
            uk_t = '%02d%s%02d%s%04d%s' % (d, sep, m, sep, y, tail_); us_t = '%02d%s%02d%s%04d%s' % (m, sep, d, sep, y, tail_)
            eq('uk %r' % uk_t, lambda: dt(uk_t), exp_)
            eq('us %r' % us_t, lambda: dt(us_t, dialect='us'), exp_)
            if d > 12:
                rej('uk-string %r read as us' % uk_t, lambda: dt(uk_t, dialect='us'))
                rej('us-string %r read as uk' % us_t, lambda: dt(us_t))
    for fmt in ('%d %B %Y', '%d %b %Y', '%B %d %Y', '%d-%b-%Y'):
        sname = D.strftime(fmt)
        eq('month name %r' % sname, lambda: dt(sname), D)
    sname = D.strftime('%B %d %Y')
    eq('month name us %r' % sname, lambda: dt(sname, dialect='us'), D)
    # time bearing spellings
    eq('datetime T', lambda: dt(T), T)
    # calls that carry a sub-second part (a 7th part / fractional seconds in an ambiguous string) must leave nothing behind for later calls
    for perturb in (lambda: dt(y, m, d, h, mi, s, 250000), lambda: dt('%02d/%02d/%04d %02d:%02d:%02d.25' % (min(d, 12), m, y, h, mi, s))):
        try:
            perturb()
        except Exception:
            pass
    eq('(y,m,d,h,mi,s)', lambda: dt(y, m, d, h, mi, s), Ts)
    eq('(y,m,d,h,mi)', lambda: dt(y, m, d, h, mi), Ts.replace(second=0))
    eq('np[s]', lambda: dt(np.datetime64(Ts.isoformat(), 's')), Ts)
    eq('np[us]', lambda: dt(np.datetime64(T.isoformat(), 'us')), T)
    if y < 2262:
        eq('np[ns]', lambda: dt(np.datetime64(T.isoformat(), 'ns')), T)
    Tms = T.replace(microsecond=max(T.microsecond // 1000, 1) * 1000)          # a non-zero number of whole milliseconds
    eq('np[ms]', lambda: dt(np.datetime64(Tms.isoformat(), 'ms')), Tms)
    eq('np[h]', lambda: dt(np.datetime64(T.replace(minute=0, second=0, microsecond=0).isoformat(), 'h')), T.replace(minute=0, second=0, microsecond=0))
    eq('np[m]', lambda: dt(np.datetime64(T.replace(second=0, microsecond=0).isoformat(), 'm')), T.replace(second=0, microsecond=0))
    eq('pandas index values [ms]', lambda: dt(pd.DatetimeIndex([Tms]).as_unit('ms').values[0]), Tms)
    eq('pd.Timestamp', lambda: dt(pd.Timestamp(T)), T)
    eq('iso T', lambda: dt(Ts.isoformat()), Ts)
    eq('iso T us', lambda: dt(T.isoformat()), T)
    uk_t = '%02d-%02d-%04d %02d:%02d:%02d' % (d, m, y, h, mi, s)
    eq('uk with time %r' % uk_t, lambda: dt(uk_t), Ts)
    us_t = '%02d/%02d/%04d %02d:%02d:%02d' % (m, d, y, h, mi, s)
    eq('us with time %r' % us_t, lambda: dt(us_t, dialect='us'), Ts)
    for X in (D, T, Ts):
        ctx.monitors['dt2str_roundtrip'] += 1
        try:
            s2 = dt2str(X)
            got = dt(s2)
            if got != X:
                ctx.fail('dt2str_roundtrip', 'dt(dt2str(%r)) = dt(%r) = %r' % (X, s2, got), case=dict(term, spelling='dt2str'))
        except Exception as e:
            ctx.fail('dt2str_roundtrip', 'dt(dt2str(%r)) raised %s' % (X, core.exc_str(e)), case=dict(term, spelling='dt2str'))
    # the same round trip through dt2str's own format spellings (a separator, strftime letters with or without %, 'iso'): one per day, in rotation
    FMTS = [('-', D), ('/', D), ('.', D), (' ', D), ('', D), ('iso', T), ('Ymd', D), ('%Y-%m-%d', D), ('Y-m-d', D), ('d b Y', D), ('d-B-Y', D), ('B d, Y', D),
            ('Y/m/d', D), ('d/m/Y', D), ('Y-m-d H:M:S', Ts), ('Y-m-dTH:M:S.f', T)]
    fmt_, X = FMTS[D.toordinal() % len(FMTS)]
    ctx.monitors['dt2str_roundtrip'] += 1
    try:
        s2 = dt2str(X, fmt_)
        got = dt(s2)
        if got != X:
            ctx.fail('dt2str_roundtrip', 'dt(dt2str(%r, %r)) = dt(%r) = %r' % (X, fmt_, s2, got), case=dict(term, spelling='dt2str fmt'))
    except Exception as e:
        ctx.fail('dt2str_roundtrip', 'dt(dt2str(%r, %r)) raised %s' % (X, fmt_, core.exc_str(e)), case=dict(term, spelling='dt2str fmt'))
    for fmt in ('%Y-%b-%d', '%Y %B %d', '%Y/%b/%d', '%Y.%B.%d'):
        sname = D.strftime(fmt)
        eq('year-first month name %r' % sname, lambda: dt(sname), D)
    sname = Ts.strftime('%Y %B %d %H:%M:%S')
    eq('year-first month name with time %r' % sname, lambda: dt(sname), Ts)
    for name, f in (('ymd(us string, dialect=us)', lambda: ymd(us_t, dialect='us')), ('ymd(us date string, dialect=us)', lambda: ymd('%02d-%02d-%04d' % (m, d, y), dialect='us')),
                    ('ymd(uk string)', lambda: ymd(uk_t)), ('ymd(datetime)', lambda: ymd(T)), ('ymd(iso)', lambda: ymd(T.isoformat())), ('ymd(y,m,d,h,mi,s)', lambda: ymd(y, m, d, h, mi, s)), ('ymd(np[us])', lambda: ymd(np.datetime64(T.isoformat(), 'us')))):
        ctx.monitors['ymd_drops_time'] += 1
        try:
            got = f()
            if got != D:
                ctx.fail('ymd_drops_time', '%s -> %r expected %r' % (name, got, D), case=dict(term, spelling=name))
        except Exception as e:
            ctx.fail('ymd_drops_time', '%s raised %s' % (name, core.exc_str(e)), case=dict(term, spelling=name))
    if m == 2 and d == 29:
        ctx.cls('leap_day')
    if d > 12:
        ctx.cls('day>12')
    elif d != m:
        ctx.cls('ambiguous')
    else:
        ctx.cls('day==month')
    if (y % 100 == 0 and m == 1 and d == 1) or (y % 100 == 99 and m == 12 and d == 31):
        ctx.cls('century_boundary')


def check_overflow(ctx, y):
    from pyg_base import dt
    bad = 0
    for m in range(-36, 49):
        base = datetime.datetime(y + (m - 1) // 12, (m - 1) % 12 + 1, 1)
        for d in range(-400, 401):
            ctx.monitors['overflow_law'] += 1
            try:
                got = dt(y, m, d)
            except Exception as e:
                got = e
            exp = base + datetime.timedelta(days=d - 1)
            if got != exp and bad < 3:
                bad += 1
                ctx.fail('overflow_law', 'dt(%d,%d,%d) = %r expected %r' % (y, m, d, got, exp), case={'overflow': [y, m, d]})
    ctx.case({'overflow_year': y}, nontrivial=True, sample=False)
    ctx.cls('overflow_grid_year')


def quick_days(seed):
    days = set()
    for yr in (1900, 1999, 2000, 2001, 2100, 2299):
        d = datetime.date(yr, 1, 1)
        while d.year == yr:
            days.add(d); d += datetime.timedelta(1)
    for yr in range(1900, 2300):
        for mo in range(1, 13):
            nxt = datetime.date(yr + (mo == 12), mo % 12 + 1, 1)
            for d in (datetime.date(yr, mo, 1), datetime.date(yr, mo, 12), datetime.date(yr, mo, 13), nxt - datetime.timedelta(1)):
                days.add(d)
        if yr % 4 == 0 and (yr % 100 != 0 or yr % 400 == 0):
            days.add(datetime.date(yr, 2, 29))
    rng = random.Random('C04q/%d' % seed)
    for _ in range(3000):
        days.add(TMIN + datetime.timedelta(rng.randrange(NDAYS)))
    return sorted(days)


def plan(tier, seed, n):
    if tier == 'quick':
        k = len(quick_days(seed))
        specs = [{'mode': 'quick', 'lo': i * k // n, 'hi': (i + 1) * k // n, 'overflow': [2000] if i == 0 else [1900] if i == 1 else []} for i in range(n)]
    else:
        specs = [{'mode': 'all', 'lo': i * NDAYS // n, 'hi': (i + 1) * NDAYS // n, 'overflow': [[1900], [1999], [2000], [2299]][i] if i < 4 else []} for i in range(n)]
    return specs


def run(spec, ctx):
    rng = random.Random('C04/%d/%d' % (spec['seed'], spec['shard']))
    if spec['mode'] == 'quick':
        days = quick_days(spec['seed'])[spec['lo']:spec['hi']]
    else:
        days = (TMIN + datetime.timedelta(i) for i in range(spec['lo'], spec['hi']))
    for day in days:
        tod = (rng.randrange(24), rng.randrange(60), rng.randrange(60), rng.choice([0, 1, 50, 999999, rng.randrange(1000000)]))
        if rng.random() < 0.1:
            tod = (0, 0, 0, rng.choice([1, 50, 999999]))
        check_day(ctx, day, tod)
        if ctx.full():
            return
    for y in spec['overflow']:
        check_overflow(ctx, y)


def replay(case, ctx):
    if 'overflow' in case:
        y, m, d = case['overflow']
        from pyg_base import dt
        exp = datetime.datetime(y + (m - 1) // 12, (m - 1) % 12 + 1, 1) + datetime.timedelta(days=d - 1)
        ctx.check('overflow_law', dt(y, m, d) == exp, lambda: 'dt(%d,%d,%d)=%r expected %r' % (y, m, d, dt(y, m, d), exp))
        return
    check_day(ctx, datetime.date.fromisoformat(case['day']), tuple(case['tod']))
