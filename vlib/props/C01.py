"""C01 - dictable behaves as a rectangular list of records under any operation history.

Monitor shape: history + executable model.  A pool of <= 4 live dictables is driven through a random
history of public operations; a plain list-of-records model runs in lock-step; after EVERY step EVERY pool
table is compared with its twin (so aliasing damage to operands shows), and an icontract class invariant
('rectangular') runs on every dictable the library touches, including temporaries.
"""
import random, types
import numpy as np
from .. import core, codec, gen, contracts
from ..core import same, HarnessError

ID = 'C01'
TITLE = 'dictable = rectangular list of records under any history'
LEVEL = 'exploration'
TECHNIQUE = 'runtime monitoring: reference-model monitor over random operation histories on a pool of live tables + icontract class invariant on every dictable touched'
LEVEL_TEXT = 'Held on the histories explored (thousands of 25-40 step histories over 35 op kinds with aliasing between pool tables); says nothing about op kinds or cell types the generator does not produce. A check says held on K observed executions, never verified.'
LEVEL_NOTE = 'Trusted: the list-of-records model and same() in vlib/, icontract, CPython. Column order and in-place edits of a column list are outside the claim.'
RULE = ('random operation histories (constructors, setitem/del, row/slice/mask/int-list/projection/tuple access, derived columns, '
        'relabel, do, concat/+, drop) over a pool of <=4 live tables, model-driven generation; a history is non-trivial when it has '
        '>=2 distinct op kinds applied to a table that was itself an op result and touches >=1 empty or column-only table; '
        'distinct = distinct canonical hash of the whole history term')
RULE_ALSO = '; added by the coverage audit and round 8: positions as range / empty list / numpy masks, column names as dict views, do over every / no column, concat of nothing and with plain records among the operands, tables re-headed with a column list (also without rows); a projection lists its columns in the order asked for'
ASSUMPTIONS = ['column order is not compared (concat uses set order by design)',
               'a table without columns has no rows (library normalisation adopted by the model)',
               'new column names never collide with existing ones; names data/columns/key are not used', 'do() over several columns is sequential: a transform reading another column sees that column as already transformed (the library\'s documented behaviour)',
               'in-place mutation of a column list obtained from d[c] is not a table operation',
               'd+None / d+0 / single-table concat may return the operand itself (modelled as aliasing when observed)']


def required(tier):
    return {'model_twin': 2000, 'dictable_rectangular': 5000, 'missized_assignment_rejected': 5, 'op_result': 1000}


def exhaustive(tier):
    return False


# ------------------------------------------------------------------ the list-of-records model
class MT(object):
    def __init__(self, cols, rows):
        self.cols = list(cols)
        self.rows = [dict(r) for r in rows] if self.cols else []

    def copy(self):
        return MT(self.cols, self.rows)

    @property
    def n(self):
        return len(self.rows)

    def col(self, c):
        return [r[c] for r in self.rows]


class MErr(object):
    def __init__(self, tp):
        self.tp = tp


def _bcast(colspec):
    """colspec: list of (name, value) with value list or scalar -> MT or MErr(ValueError)"""
    lens = []
    for _, v in colspec:
        lens.append(len(v) if isinstance(v, list) else 1)
    non1 = set(lens) - {1}
    if len(non1) > 1:
        return MErr(ValueError)
    n = (non1.pop() if non1 else 1) if colspec else 0
    cols = []
    data = {}
    for (k, v), l in zip(colspec, lens):
        if k not in cols:
            cols.append(k)
        vv = v if isinstance(v, list) else [v]
        data[k] = vv * n if len(vv) == 1 else vv
    return MT(cols, [{c: data[c][i] for c in cols} for i in range(n)])


def _fn(spec):
    """generated user functions over named columns; returns a str built from reprs (scalar valued)"""
    kind, args = spec['fn'], spec['args']
    if kind == 'kwonly' and 'key' in args:
        kind, args = 'cat', args[:1]       # (a parameter called 'key' is handed the name of the column being computed when no column has that name: documented, not modelled)
    if kind == 'cat':
        return eval('lambda %s: "|".join(["%%r"%%(v,) for v in [%s]])' % (', '.join(args), ', '.join(args) + (',' if len(args) == 1 else '')))
    if kind == 'ident':
        return eval('lambda %s: %s' % (args[0], args[0]))
    if kind == 'const':
        return eval('lambda %s: 7' % ', '.join(args))
    if kind == 'kwonly':
        # a keyword-only parameter with a default: it receives the cell of the column of that name when there is one, its default otherwise
        return eval('lambda %s, *, %s=0: "%%r|%%r" %% (%s, %s)' % (args[0], args[1], args[0], args[1]))
    if kind == 'kdef':
        # the loop idiom `lambda a, k=k: ...`: ONE code object, a different default per function
        if args[0] not in _KDEF:
            _KDEF[args[0]] = eval('lambda %s, k_=0: "%%r+%%r" %% (%s, k_)' % (args[0], args[0]))
        base = _KDEF[args[0]]
        return types.FunctionType(base.__code__, base.__globals__, base.__name__, (spec['k'],), base.__closure__)
    raise HarnessError(kind)


_KDEF = {}


def _fn_model(spec, row):
    kind, args = spec['fn'], spec['args']
    if kind == 'kwonly' and 'key' in args:
        kind, args = 'cat', args[:1]
    if kind == 'cat':
        return '|'.join(['%r' % (row[a],) for a in args])
    if kind == 'ident':
        return row[args[0]]
    if kind == 'const':
        return 7
    if kind == 'kwonly':
        return '%r|%r' % (row[args[0]], row.get(args[1], 0))
    if kind == 'kdef':
        return '%r+%r' % (row[args[0]], spec['k'])
    raise HarnessError(kind)


def _do_fn(spec):
    kind = spec['fn']
    if kind == 'repr':
        return lambda v: 'r%r' % (v,)
    if kind == 'ident':
        return lambda v: v
    if kind == 'pair':
        return eval('lambda value, %s: "%%r~%%r"%%(value, %s)' % (spec['other'], spec['other']))
    raise HarnessError(kind)


def _do_model(spec, v, row):
    kind = spec['fn']
    if kind == 'repr':
        return 'r%r' % (v,)
    if kind == 'ident':
        return v
    if kind == 'pair':
        return '%r~%r' % (v, row[spec['other']])
    raise HarnessError(kind)


class OperandChanged(Exception):
    pass


def model_apply(op, mp, vals):
    """mp: list of MT (aliasing = same object). vals: decoded values of op (same objects the real side gets).
    returns ('table', MT, alias_of|None) | ('value', v) | ('error', type) | ('inplace', None)"""
    k = op['op']
    T = lambda key='t': mp[op[key]]
    if k == 'new_records':
        recs = vals['recs']
        cols = []
        for r in recs:
            for c in r:
                if c not in cols:
                    cols.append(c)
        return 'table', MT(cols, [{c: r.get(c) for c in cols} for r in recs]), None
    if k in ('new_columns', 'new_kwargs'):
        r = _bcast(list(vals['cols'].items()))
        return ('error', r.tp) if isinstance(r, MErr) else ('table', r, None)
    if k == 'new_rows':
        hdr = op['hdr']
        return 'table', MT(hdr, [dict(zip(hdr, row)) for row in vals['rows']]), None
    if k == 'new_header_rows':
        hdr = op['hdr']
        return 'table', MT(hdr, [dict(zip(hdr, row)) for row in vals['rows']]), None
    if k == 'new_empty':
        return 'table', MT(op.get('hdr') or [], []), None
    if k == 'new_from_rows_of':
        t = T()
        return 'table', MT(t.cols, t.rows), None
    if k == 'setitem':
        t = T()
        v = vals['v']
        vv = v if isinstance(v, list) else [v]
        if len(vv) == t.n or not t.cols:
            pass
        elif len(vv) == 1:
            vv = vv * t.n
        else:
            return 'error', ValueError
        if not t.cols:
            t.cols = [op['c']]
            t.rows = [{op['c']: x} for x in vv]
        else:
            if op['c'] not in t.cols:
                t.cols.append(op['c'])
            for r, x in zip(t.rows, vv):
                r[op['c']] = x
        return 'inplace', None
    if k == 'setcol_from':
        t, s = T(), mp[op['s']]
        col = s.col(op['sc'])
        if not t.cols:
            t.cols = [op['c']]; t.rows = [{op['c']: x} for x in col]
        else:
            if len(col) != t.n and len(col) != 1:
                return 'error', ValueError
            if len(col) == 1 and t.n != 1:
                col = col * t.n
            if op['c'] not in t.cols:
                t.cols.append(op['c'])
            for r, x in zip(t.rows, col):
                r[op['c']] = x
        return 'inplace', None
    if k == 'del':
        t = T()
        t.cols.remove(op['c'])
        for r in t.rows:
            del r[op['c']]
        if not t.cols:
            t.rows = []
        return 'inplace', None
    if k == 'row':
        return 'value', ('row', dict(T().rows[op['i']]))
    if k == 'slice':
        t = T()
        s = slice(*op['s'])
        return 'table', MT(t.cols, t.rows[s]), None
    if k == 'mask':
        t = T()
        return 'table', MT(t.cols, [r for r, m in zip(t.rows, op['m']) if m]), None
    if k == 'ints':
        t = T()
        return 'table', MT(t.cols, [t.rows[i] for i in op['i']]), None
    if k == 'project':
        t = T()
        return 'table', MT(op['cs'], [{c: r[c] for c in op['cs']} for r in t.rows]), None
    if k == 'tuple':
        t = T()
        return 'value', ('list', [tuple(r[c] for c in op['cs']) for r in t.rows])
    if k == 'column':
        return 'value', ('list', T().col(op['c']))
    if k == 'get':
        t = T()
        return 'value', ('list', t.col(op['c']) if op['c'] in t.cols else [vals['dflt']] * t.n)
    if k == 'derive':
        t = T()
        res = t.copy()
        if op['c'] not in res.cols:
            res.cols.append(op['c'])
        for r in res.rows:
            r[op['c']] = _fn_model(op['f'], r)
        return 'table', res, None
    if k == 'if_none':
        t = T()
        res = t.copy()
        c, v = op['c'], vals['v']
        if c not in res.cols:
            res.cols.append(c)
            for r in res.rows:
                r[c] = v
        else:
            for r in res.rows:
                if r[c] is None:
                    r[c] = v
        return 'table', res, None
    if k == 'derive_const':
        t = T()
        res = t.copy()
        v = vals['v']
        vv = v if isinstance(v, list) else [v]
        if not res.cols:
            return 'table', MT([op['c']], [{op['c']: x} for x in vv]), None
        if len(vv) == 1 and res.n != 1:
            vv = vv * res.n
        if len(vv) != res.n:
            return 'error', ValueError
        if op['c'] not in res.cols:
            res.cols.append(op['c'])
        for r, x in zip(res.rows, vv):
            r[op['c']] = x
        return 'table', res, None
    if k == 'apply':
        t = T()
        return 'value', ('list', [_fn_model(op['f'], r) for r in t.rows])
    if k == 'relabel':
        t = T()
        m = op['map']
        newcols = [m.get(c, c) for c in t.cols]
        if len(set(newcols)) != len(newcols):
            raise HarnessError('relabel collision')
        return 'table', MT(newcols, [{m.get(c, c): v for c, v in r.items()} for r in t.rows]), None
    if k == 'do':
        t = T()
        res = t.copy()
        for c in op['cs']:
            for r in res.rows:
                r[c] = _do_model(op['f'], r[c], r)
        return 'table', res, None
    if k == 'drop':
        t = T()
        cs = [c for c in t.cols if c not in op['cs']]
        return 'table', MT(cs, [{c: r[c] for c in cs} for r in t.rows]), None
    if k in ('concat', 'add'):
        ts = [mp[i] for i in op['ts']]
        if k == 'concat' and 'rec' in op:
            rec = vals['rec']
            ts = ts + [MT(list(rec), [dict(rec)])]      # a plain record among the operands is a one-row table
        if len(ts) == 1:
            return 'table', ts[0], op['ts'][0]
        cols = []
        for t in ts:
            for c in t.cols:
                if c not in cols:
                    cols.append(c)
        rows = []
        for t in ts:
            rows.extend({c: r.get(c) for c in cols} for r in t.rows)
        return 'table', MT(cols, rows), None
    if k == 'add_record':
        t = T()
        rec = vals['rec']
        cols = list(t.cols) + [c for c in rec if c not in t.cols]
        if op.get('left'):
            # record + table: the record's row comes first
            rows = [{c: rec.get(c) for c in cols}] + [{c: r.get(c) for c in cols} for r in t.rows]
        else:
            rows = [{c: r.get(c) for c in cols} for r in t.rows] + [{c: rec.get(c) for c in cols}]
        return 'table', MT(cols, rows), None
    if k == 'iadd':
        t = T()
        if 'o' in op:
            ts = [t, mp[op['o']]]
            cols = []
            for t_ in ts:
                for c in t_.cols:
                    if c not in cols:
                        cols.append(c)
            rows = []
            for t_ in ts:
                rows.extend({c: r.get(c) for c in cols} for r in t_.rows)
            return 'table', MT(cols, rows), None
        rec = vals['rec']
        cols = list(t.cols) + [c for c in rec if c not in t.cols]
        return 'table', MT(cols, [{c: r.get(c) for c in cols} for r in t.rows] + [{c: rec.get(c) for c in cols}]), None
    if k == 'add_none':
        return 'table', T(), op['t']
    if k == 'copy':
        return 'table', T().copy(), None
    if k == 'new_pairs':
        r = _bcast([(c, v) for c, v in vals['pairs']])
        return ('error', r.tp) if isinstance(r, MErr) else ('table', r, None)
    if k == 'new_from_table':
        if op.get('hdr') is not None:
            t = T()
            return 'table', MT(list(op['hdr']), [{c: r.get(c) for c in op['hdr']} for r in t.rows]), None
        return 'table', T().copy(), None
    if k == 'update':
        t = T()
        for c, v in vals['upd'].items():
            vv = v if isinstance(v, list) else [v]
            if len(vv) == 1 and t.n != 1 and t.cols:
                vv = vv * t.n
            if not t.cols:
                t.cols = [c]; t.rows = [{c: x} for x in vv]
            else:
                if len(vv) != t.n:
                    return 'error', ValueError
                if c not in t.cols:
                    t.cols.append(c)
                for r, x in zip(t.rows, vv):
                    r[c] = x
        return 'inplace', None
    if k == 'and':
        t = T()
        cs = [c for c in t.cols if c in op['cs']]
        if not cs:
            raise HarnessError('empty intersection is not generated')
        return 'table', MT(cs, [{c: r[c] for c in cs} for r in t.rows]), None
    if k == 'or':
        t = T()
        spec = [(c, t.col(c)) for c in t.cols if c not in vals['other']] + [(c, v) for c, v in vals['other'].items()]
        order = [c for c in t.cols] + [c for c in vals['other'] if c not in t.cols]
        d = dict(spec)
        r = _bcast([(c, d[c]) for c in order])
        return ('error', r.tp) if isinstance(r, MErr) else ('table', r, None)
    raise HarnessError('unknown op %s' % k)


def real_apply(op, pool, vals):
    from pyg_base import dictable
    k = op['op']
    T = lambda key='t': pool[op[key]]
    if k == 'new_records':
        return dictable(vals['recs'])
    if k == 'new_columns':
        return dictable(dict(vals['cols']))
    if k == 'new_kwargs':
        return dictable(**vals['cols'])
    if k == 'new_rows':
        return dictable(vals['rows'], op['hdr'])
    if k == 'new_header_rows':
        return dictable([list(op['hdr'])] + vals['rows'])
    if k == 'new_empty':
        return dictable([], op['hdr']) if op.get('hdr') else dictable()
    if k == 'new_from_rows_of':
        return dictable(list(T())) if len(T()) else dictable([], T().keys())
    if k == 'setitem':
        T()[op['c']] = vals['v']
        return None
    if k == 'setcol_from':
        T()[op['c']] = pool[op['s']][op['sc']]
        return None
    if k == 'del':
        if op.get('via') == 'attr':
            delattr(T(), op['c'])
        else:
            del T()[op['c']]
        return None
    if k == 'row':
        return T()[np.int64(op['i'])] if op.get('np') else T()[op['i']]
    if k == 'slice':
        return T()[slice(*op['s'])]
    if k == 'mask':
        return T()[np.array(op['m'], dtype=bool)] if op.get('np') else T()[list(op['m'])]
    if k == 'ints':
        if op.get('range'):
            return T()[range(*op['range'])]
        return T()[np.array(op['i'], dtype=op['np'])] if op.get('np') else T()[list(op['i'])]
    if k == 'project':
        if op.get('view') == 'keys':
            return T()[{c: None for c in op['cs']}.keys()]
        if op.get('view') == 'values':
            return T()[{i: c for i, c in enumerate(op['cs'])}.values()]
        return T()[list(op['cs'])]
    if k == 'tuple':
        return T()[tuple(op['cs'])]
    if k == 'column':
        return T()[op['c']]
    if k == 'get':
        return T().get(op['c'], vals['dflt'])
    if k == 'derive':
        return T()(**{op['c']: _fn(op['f'])})
    if k == 'if_none':
        return T().if_none(**{op['c']: vals['v']})
    if k == 'derive_const':
        return T()(**{op['c']: vals['v']})
    if k == 'apply':
        return T()[_fn(op['f'])]
    if k == 'relabel':
        how = op['how']
        if how == 'kw':
            return T().relabel(**op['map'])
        if how == 'rename':
            return T().rename(**op['map'])
        if how == 'dict':
            return T().relabel(dict(op['map']))
        if how == 'prefix':
            return T().relabel(op['arg'])
        if how == 'suffix':
            return T().relabel(op['arg'])
        if how == 'upper':
            return T().relabel(lambda s: s.upper())
        if how == 'names':
            return T().relabel([op['map'][c] for c in T().keys()])        # one new name per column, in column order
        raise HarnessError(how)
    if k == 'do':
        f = _do_fn(op['f'])
        if op.get('all'):
            return T().do(f)                       # no keys: every column
        return T().do(f, *op['cs']) if op.get('star') and op['cs'] else T().do(f, list(op['cs']))
    if k == 'drop':
        cs = op['cs']
        return T() - (cs[0] if len(cs) == 1 and op.get('single') else list(cs))
    if k == 'concat':
        ts = [pool[i] for i in op['ts']]
        if 'rec' in op:
            rec = dict(vals['rec'])
            parts = ts + [rec]
            res = dictable.concat(*parts) if op.get('star') else dictable.concat(parts)
            if len(parts) != len(ts) + 1 or parts[-1] is not rec or type(rec) is not dict or not same(rec, dict(vals['rec'])) or any(a is not b for a, b in zip(parts, ts)):
                raise OperandChanged('dictable.concat edited the list of operands it was given: %r' % (parts,))
            return res
        return dictable.concat(*ts) if op.get('star') else dictable.concat(ts)
    if k == 'add':
        ts = [pool[i] for i in op['ts']]
        r = ts[0]
        for t in ts[1:]:
            r = r + t
        return r
    if k == 'add_record':
        if op.get('left'):
            return (vals['rec'] + T()) if op['left'] == 'record' else ([vals['rec']] + T())
        return T() + vals['rec']
    if k == 'add_none':
        return T() + (None if op.get('none', True) else 0)
    if k == 'copy':
        return T().copy()
    if k == 'iadd':
        x_ = T()
        x_ += (pool[op['o']] if 'o' in op else vals['rec'])
        return x_
    if k == 'new_pairs':
        return dictable([(c, v) for c, v in vals['pairs']])
    if k == 'new_from_table':
        if op.get('hdr') is not None:
            # a table re-headed: the listed columns in the listed order, columns it lacks filled with None (also when it has no rows)
            return dictable(T(), columns=list(op['hdr'])) if op.get('hdr_kw') else dictable(T(), list(op['hdr']))
        return dictable(T())
    if k == 'update':
        if op.get('via') == 'attr':
            for c, v in vals['upd'].items():
                setattr(T(), c, v)
        elif op.get('via') == 'ior':
            x_ = T()
            x_ |= dict(vals['upd'])          # the in-place union of mappings is an assignment of columns too
        elif op.get('via') == 'setdefault':
            for c, v in vals['upd'].items():
                T().setdefault(c, v)          # ... and so is setdefault for a column that is not there yet
        else:
            T().update(dict(vals['upd']))
        return None
    if k == 'and':
        return T() & list(op['cs'])
    if k == 'or':
        return T() | dict(vals['other'])
    raise HarnessError('unknown op %s' % k)


INPLACE = ('setitem', 'setcol_from', 'del', 'update')
VALUE = ('row', 'tuple', 'column', 'get', 'apply')
ALIAS_OK = ('add_none', 'concat', 'add')


def compare_table(ctx, d, m, where):
    """the twin comparison: key set, len, shape, rows by iteration, d[i][c]==d[c][i], columns are lists of equal length"""
    from pyg_base import Dict
    ctx.ev('model_twin')
    keys = list(d.keys())
    if sorted(keys) != sorted(m.cols) or len(set(keys)) != len(keys):
        return 'columns %s != model %s (%s)' % (keys, m.cols, where)
    for c in keys:
        col = dict.__getitem__(d, c)
        if type(col) is not list or len(col) != m.n:
            return 'column %r is %s of len %s, model has %d rows (%s)' % (c, type(col).__name__, len(col) if hasattr(col, '__len__') else '?', m.n, where)
    if len(d) != m.n:
        return 'len(d)=%s != model %d (%s)' % (len(d), m.n, where)
    if tuple(d.shape) != (m.n, len(m.cols)):
        return 'shape %s != model %s (%s)' % (d.shape, (m.n, len(m.cols)), where)
    rows = list(d)
    if len(rows) != m.n:
        return 'iteration yields %d rows, model %d (%s)' % (len(rows), m.n, where)
    for i, (r, mr) in enumerate(zip(rows, m.rows)):
        if not isinstance(r, dict) or sorted(r.keys()) != sorted(mr.keys()):
            return 'row %d keys %s != %s (%s)' % (i, list(r.keys()) if isinstance(r, dict) else r, list(mr.keys()), where)
        for c in keys:
            if not same(r[c], mr[c]):
                return 'row %d col %r: %r != model %r (%s)' % (i, c, r[c], mr[c], where)
            dic = d[i][c]
            dci = d[c][i]
            if not (dic is dci or same(dic, dci)):
                return 'd[%d][%r]=%r != d[%r][%d]=%r (%s)' % (i, c, dic, c, i, dci, where)
    return None


def run_history(case, ctx):
    from pyg_base import dictable, Dict
    sess = codec._Session()
    pool, mp = [], []
    kinds_on_results, touched_empty = set(), False
    is_result = []
    for step, op in enumerate(case['ops']):
        vals = {k: codec.dec(op[k], sess) for k in ('recs', 'cols', 'rows', 'v', 'rec', 'dflt', 'pairs', 'upd', 'other') if k in op}
        k = op['op']
        before = contracts.COUNTS['dictable_rectangular']
        try:
            mres = model_apply(op, mp, vals)
        except (KeyError, IndexError, ValueError, TypeError) as e:
            raise HarnessError('model cannot apply %s: %r' % (op, e))
        try:
            status, rres = 'ok', real_apply(op, pool, vals)
        except HarnessError:
            raise
        except contracts.InvariantBroken as e:
            ctx.ev('dictable_rectangular', contracts.COUNTS['dictable_rectangular'] - before)
            ctx.fail('dictable_rectangular', 'step %d %s: %s' % (step, op, e))
            return
        except core.StepBudgetExceeded:
            raise
        except Exception as e:
            status, rres = 'exc', e
        ctx.ev('dictable_rectangular', contracts.COUNTS['dictable_rectangular'] - before)
        ctx.cls('op:' + k)
        if mres[0] == 'error':
            ok = status == 'exc' and isinstance(rres, mres[1])
            mon = 'missized_assignment_rejected' if k in ('setitem', 'setcol_from', 'update', 'derive_const') else 'bad_construction_rejected'
            if not ctx.check(mon, ok, lambda: 'step %d %s: model expects %s, library %s' % (step, op, mres[1].__name__, 'returned %r' % (rres,) if status == 'ok' else core.exc_str(rres))):
                return
        elif status == 'exc':
            ctx.ev('op_result')
            ctx.fail('op_result', 'step %d %s raised %s but the model yields %s' % (step, op, core.exc_str(rres), mres[0]))
            return
        elif mres[0] == 'value':
            kind, mv = mres[1]
            if kind == 'row':
                ok = type(rres) is Dict and same(dict(rres), mv)
            else:
                ok = isinstance(rres, list) and same(list(rres), mv)
            if not ctx.check('op_result', ok, lambda: 'step %d %s returned %r, model %r' % (step, op, rres, mv)):
                return
        elif mres[0] == 'table':
            if not ctx.check('op_result', type(rres) is dictable, lambda: 'step %d %s returned %s not a dictable' % (step, op, type(rres))):
                return
            if k == 'project' and not ctx.check('op_result', list(rres.keys()) == list(op['cs']), lambda: 'step %d %s: the projection lists its columns as %s, asked for %s (in that order: what a positional renaming afterwards goes by)' % (step, op, list(rres.keys()), op['cs'])):
                return
            if k == 'new_from_table' and op.get('hdr') is not None and not ctx.check('op_result', list(rres.keys()) == list(op['hdr']), lambda: 'step %d %s: the re-headed table lists its columns as %s' % (step, op, list(rres.keys()))):
                return
            mt, alias = mres[1], mres[2]
            if alias is not None:
                # legitimate identity returns: follow what the real code did
                if rres is pool[alias]:
                    mt = mp[alias]
                else:
                    mt = mp[alias].copy()
            dst = op.get('dst', len(pool))
            if dst >= len(pool):
                pool.append(rres); mp.append(mt); is_result.append(not k.startswith('new'))
            else:
                pool[dst] = rres; mp[dst] = mt; is_result[dst] = not k.startswith('new')
        # after every step every pool table is compared with its twin
        for i, (d, m) in enumerate(zip(pool, mp)):
            msg = compare_table(ctx, d, m, 'pool[%d] after step %d %s' % (i, step, op))
            if msg:
                mon = 'model_twin'
                operands = [op.get('t')] + list(op.get('ts', [])) + [op.get('s')]
                if mres[0] in ('table', 'value') and i in operands and i != op.get('dst', -1):
                    mon = 'operand_unchanged'
                    ctx.ev('operand_unchanged')
                ctx.fail(mon, msg)
                return
        if 't' in op and op['t'] < len(is_result) and is_result[op['t']]:
            kinds_on_results.add(k)
        for m in mp:
            if m.n == 0:
                touched_empty = True
    if len(kinds_on_results) >= 2 and touched_empty:
        ctx.mark_nontrivial(case)
        ctx.cls('nontrivial_history')


# ------------------------------------------------------------------ model-driven generator
def gen_history(rng, nops):
    ops, mp = [], []
    sess = codec._Session()

    def push(op):
        vals = {k: codec.dec(op[k], sess) for k in ('recs', 'cols', 'rows', 'v', 'rec', 'dflt', 'pairs', 'upd', 'other') if k in op}
        r = model_apply(op, mp, vals)
        if r[0] == 'table':
            dst = op.get('dst', len(mp))
            mt = r[1] if r[2] is None else mp[r[2]]
            if dst >= len(mp):
                mp.append(mt)
            else:
                mp[dst] = mt
        ops.append(op)

    def new_op():
        kind = rng.choice(['records', 'columns', 'kwargs', 'rows', 'header_rows', 'empty', 'cols_only', 'bad'])
        n = rng.choice([0, 1, 1, 2, 3, 4, 5]) if rng.random() > 0.015 else rng.choice([70, 140])       # now and then a long table: any size-dependent path of the table code is reached
        cs = gen.subset(rng, gen.COLS, 1, 4)
        if kind == 'records':
            n = max(n, 1)
            recs = []
            for _ in range(n):
                ks = cs if rng.random() < 0.6 else (gen.subset(rng, cs, 1) or cs[:1])
                recs.append({c: gen.cell(rng) for c in ks})
            return {'op': 'new_records', 'recs': recs}
        if kind in ('columns', 'kwargs', 'bad'):
            cols = {}
            for c in cs:
                r = rng.random()
                if r < 0.2:
                    cols[c] = gen.cell(rng)
                elif r < 0.35:
                    cols[c] = [gen.cell(rng)]
                else:
                    cols[c] = gen.cells(rng, n)
            if kind == 'bad' and len(cs) >= 2 and n >= 2:
                cols[cs[0]] = gen.cells(rng, n)
                cols[cs[1]] = gen.cells(rng, n + rng.choice([1, 2]))
            return {'op': 'new_columns' if kind != 'kwargs' else 'new_kwargs', 'cols': cols}
        if kind == 'rows':
            return {'op': 'new_rows', 'hdr': cs, 'rows': [gen.cells(rng, len(cs)) for _ in range(n)]}
        if kind == 'header_rows':
            return {'op': 'new_header_rows', 'hdr': cs, 'rows': [gen.cells(rng, len(cs)) for _ in range(max(n, 1))]}
        if kind == 'empty':
            return {'op': 'new_empty'}
        return {'op': 'new_empty', 'hdr': cs}

    for _ in range(rng.randint(2, 3)):
        op = new_op()
        push(op)
    if not mp:
        push({'op': 'new_empty'})
    tries = 0
    while len(ops) < nops and tries < nops * 20:
        tries += 1
        t = rng.randrange(len(mp))
        m = mp[t]
        dst = rng.randrange(len(mp) + 1) if len(mp) < 4 else rng.randrange(4)
        k = rng.choice(['iadd', 'iadd', 'update', 'and', 'or', 'new_pairs', 'new_from_table', 'setitem', 'setitem', 'setbad', 'setcol_from', 'del', 'row', 'slice', 'slice', 'mask', 'mask', 'ints', 'project', 'tuple',
                        'column', 'get', 'derive', 'derive_const', 'if_none', 'apply', 'relabel', 'do', 'drop', 'concat', 'concat', 'add', 'add_record',
                        'add_none', 'copy', 'new', 'new_from_rows_of'])
        free = [c for c in gen.COLS + ['g', 'h'] if c not in m.cols]
        op = None
        if k == 'new':
            op = new_op(); op['dst'] = dst
        elif k == 'setitem':
            c = rng.choice(m.cols + free[:1]) if m.cols else rng.choice(gen.COLS)
            r = rng.random()
            if r < 0.55:
                v = gen.cells(rng, m.n if m.cols else rng.choice([0, 1, 3]))
            elif r < 0.8:
                v = gen.cell(rng)
            else:
                v = [gen.cell(rng)]
            op = {'op': 'setitem', 't': t, 'c': c, 'v': v}
        elif k == 'setbad':
            if m.cols and m.n != 2:
                bad = rng.choice([x for x in (0, 2, m.n + 1, m.n + 2, max(m.n - 1, 0)) if x != m.n and x != 1])
                op = {'op': 'setitem', 't': t, 'c': rng.choice(m.cols + free[:1]), 'v': gen.cells(rng, bad)}
        elif k == 'setcol_from':
            s = rng.randrange(len(mp))
            if mp[s].cols and m.cols and (mp[s].n == m.n or mp[s].n == 1):        # the column list of a one-row table is broadcast like any length-1 list - and stays that table's column
                op = {'op': 'setcol_from', 't': t, 'c': rng.choice(m.cols + free[:1]), 's': s, 'sc': rng.choice(mp[s].cols)}
        elif k == 'del' and m.cols:
            op = {'op': 'del', 't': t, 'c': rng.choice(m.cols), 'via': rng.choice(['item', 'attr'])}
        elif k == 'update':
            cs = gen.subset(rng, m.cols + free[:2], 1, 2) if m.cols else [rng.choice(gen.COLS)]
            n_ = m.n if m.cols else rng.choice([0, 1, 3])
            upd = {}
            for c in cs:
                upd[c] = gen.cells(rng, n_) if (rng.random() < 0.6 or not m.cols) else gen.cell(rng)
            if not m.cols:
                upd = {cs[0]: gen.cells(rng, n_)}
            elif rng.random() < 0.25:
                bad = rng.choice([x for x in (0, 2, 3, m.n + 1, m.n + 2) if x != m.n and x != 1])
                upd = {cs[0]: gen.cells(rng, bad)}     # a single non-fitting column: must be rejected, table stays as it was
            op = {'op': 'update', 't': t, 'upd': upd, 'via': rng.choice(['update', 'attr', 'ior', 'setdefault'])}
            if op['via'] == 'setdefault' and any(c in m.cols for c in upd):
                op['via'] = 'ior'
        elif k == 'and' and m.cols:
            cs = gen.subset(rng, m.cols, 1) + free[:1]
            op = {'op': 'and', 't': t, 'cs': cs, 'dst': dst}
        elif k == 'or' and m.cols:
            other = {}
            for c in gen.subset(rng, m.cols[:1] + free[:2], 1, 2):
                r = rng.random()
                other[c] = gen.cells(rng, m.n) if r < 0.6 else gen.cell(rng) if r < 0.85 else gen.cells(rng, m.n + 2)
            op = {'op': 'or', 't': t, 'other': other, 'dst': dst}
        elif k == 'new_pairs':
            n_ = rng.choice([0, 1, 2, 3])
            cs = gen.subset(rng, gen.COLS, 1, 3)
            pairs = [[c, gen.cells(rng, n_) if rng.random() < 0.7 else gen.cell(rng)] for c in cs]
            op = {'op': 'new_pairs', 'pairs': pairs, 'dst': dst}
        elif k == 'new_from_table':
            op = {'op': 'new_from_table', 't': t, 'dst': dst}
            if m.cols and rng.random() < 0.5:
                hdr = gen.subset(rng, m.cols, 1)
                rng.shuffle(hdr)
                if free and rng.random() < 0.3:
                    hdr.insert(rng.randrange(len(hdr) + 1), free[0])
                op['hdr'] = hdr
                op['hdr_kw'] = rng.random() < 0.5
        elif k == 'row' and m.n:
            op = {'op': 'row', 't': t, 'i': rng.randrange(-m.n, m.n)}
            if rng.random() < 0.25:
                op['np'] = True      # a numpy integer is an integer
        elif k == 'slice' and m.cols:
            r = lambda: rng.choice([None, 0, 1, 2, -1, -2, 5, m.n])
            op = {'op': 'slice', 't': t, 's': [r(), r(), rng.choice([None, None, 1, 2, -1, 3])], 'dst': dst}
        elif k == 'mask' and m.cols and m.n:
            mode = rng.random()
            mask = [False] * m.n if mode < 0.2 else [True] * m.n if mode < 0.3 else [rng.random() < 0.5 for _ in range(m.n)]
            if m.n == 1 or len(mask) != 1:
                op = {'op': 'mask', 't': t, 'm': mask, 'dst': dst}
                if rng.random() < 0.2:
                    op['np'] = True       # the mask as a numpy bool array
        elif k in ('mask', 'ints') and m.cols and not m.n:
            # a table with columns and no rows: the empty mask / no positions (as numpy arrays half of the time) select its (no) rows
            op = {'op': 'mask', 't': t, 'm': [], 'dst': dst} if k == 'mask' else {'op': 'ints', 't': t, 'i': [], 'dst': dst}
            if rng.random() < 0.6:
                op['np'] = True if k == 'mask' else 'int64'
        elif k == 'ints' and m.cols and m.n:
            op = {'op': 'ints', 't': t, 'i': [rng.randrange(-m.n, m.n) for _ in range(rng.randint(1, 4))], 'dst': dst}
            r_ = rng.random()
            if r_ < 0.25:        # positions given as a numpy integer array; as many as there are rows, all 0/1, is still a list of positions
                op['i'] = [rng.choice([0, 1]) if m.n > 1 else 0 for _ in range(m.n)]
                op['np'] = rng.choice(['int64', 'int32'])
            elif r_ < 0.4:
                op['np'] = 'int64'
            elif r_ < 0.55:       # positions as a range (possibly an empty one), or no positions at all
                a_ = rng.randrange(0, m.n + 1); b_ = rng.randrange(a_, m.n + 1); st_ = rng.choice([1, 1, 2])
                op['range'] = [a_, b_, st_]
                op['i'] = list(range(a_, b_, st_))
            elif r_ < 0.62:
                op['i'] = []
                if rng.random() < 0.5:
                    op['np'] = 'int64'       # np.where(cond)[0] with no hit
        elif k == 'project' and m.cols:
            op = {'op': 'project', 't': t, 'cs': gen.subset(rng, m.cols, 1), 'dst': dst}
            if rng.random() < 0.2:
                op['view'] = rng.choice(['keys', 'values'])     # the column names as a dict view
        elif k == 'tuple' and m.cols:
            cs = gen.subset(rng, m.cols, 1)
            if tuple(cs) not in [(c,) for c in m.cols] or True:
                op = {'op': 'tuple', 't': t, 'cs': cs}
        elif k == 'column' and m.cols:
            op = {'op': 'column', 't': t, 'c': rng.choice(m.cols)}
        elif k == 'get':
            op = {'op': 'get', 't': t, 'c': rng.choice(m.cols + free[:1]) if m.cols else 'a', 'dflt': gen.cell(rng, nan=0)}
        elif k == 'derive' and m.cols:
            args = gen.subset(rng, m.cols, 1, 3)
            op = {'op': 'derive', 't': t, 'c': rng.choice(free[:2] + m.cols[:1]), 'f': {'fn': rng.choice(['cat', 'cat', 'const'] + (['ident'] if len(args) == 1 else [])), 'args': args}, 'dst': dst}
            if op['f']['fn'] == 'ident':
                op['f']['args'] = args[:1]
            if rng.random() < 0.3:
                op['f'] = {'fn': 'kdef', 'args': args[:1], 'k': rng.choice([1, 2, 3])}
            elif rng.random() < 0.2:
                second = [c_ for c_ in m.cols + free[:1] if c_ != args[0] and c_ != op['c'] and c_ != 'key']      # (a parameter called 'key' is handed the name of the column being computed: documented)
                if second:
                    op['f'] = {'fn': 'kwonly', 'args': [args[0], rng.choice(second)]}
        elif k == 'if_none' and m.cols and m.n:
            op = {'op': 'if_none', 't': t, 'c': rng.choice(m.cols + free[:1]), 'v': rng.choice([0, 'filled', 2.5]), 'dst': dst}
        elif k == 'derive_const' and m.cols:
            r_ = rng.random()
            v = gen.cell(rng) if r_ < 0.5 else gen.cells(rng, m.n) if r_ < 0.8 else gen.cells(rng, rng.choice([x for x in (0, 2, m.n + 1, m.n + 3) if x != m.n and x != 1]))
            op = {'op': 'derive_const', 't': t, 'c': rng.choice(free[:2] + m.cols[:1]), 'v': v, 'dst': dst}
        elif k == 'apply' and m.cols:
            op = {'op': 'apply', 't': t, 'f': {'fn': 'cat', 'args': gen.subset(rng, m.cols, 1, 3)}}
        elif k == 'relabel' and m.cols:
            how = rng.choice(['kw', 'rename', 'dict', 'prefix', 'suffix', 'upper', 'names'])
            if how == 'names':
                news = rng.sample(free, len(m.cols)) if len(free) >= len(m.cols) else None
                mapping = dict(zip(m.cols, news)) if news else None
                arg = None
            elif how in ('kw', 'rename', 'dict'):
                olds = gen.subset(rng, m.cols, 1, 2)
                news = rng.sample(free, len(olds)) if len(free) >= len(olds) else None
                mapping = dict(zip(olds, news)) if news else None
                arg = None
            elif how == 'prefix':
                arg = rng.choice(['p_', 'q_']); mapping = {c: arg + c for c in m.cols}
            elif how == 'suffix':
                arg = rng.choice(['_s', '_t']); mapping = {c: c + arg for c in m.cols}
            else:
                arg = None; mapping = {c: c.upper() for c in m.cols}
            if mapping:
                newcols = [mapping.get(c, c) for c in m.cols]
                if len(set(newcols)) == len(newcols) and max(len(c) for c in newcols) < 9 and not set(newcols) & {'data', 'columns', 'key'}:
                    op = {'op': 'relabel', 't': t, 'how': how, 'map': mapping, 'arg': arg, 'dst': dst}
        elif k == 'do' and m.cols:
            cs = gen.subset(rng, m.cols, 1, 3)
            others = [c for c in m.cols if c not in cs] if rng.random() < 0.5 else [c for c in m.cols]
            fn = rng.choice(['repr', 'ident', 'pair'] if others else ['repr', 'ident'])
            f = {'fn': fn}
            if fn == 'pair':
                f['other'] = rng.choice(others)
            op = {'op': 'do', 't': t, 'cs': cs, 'f': f, 'star': rng.random() < 0.5, 'dst': dst}
            r_ = rng.random()
            if r_ < 0.12 and fn != 'pair':
                op['cs'] = list(m.cols); op['all'] = True          # no keys given: every column
            elif r_ < 0.2:
                op['cs'] = []; op['star'] = False                  # an empty key list: nothing to do
        elif k == 'drop' and m.cols:
            cs = gen.subset(rng, m.cols + free[:1], 1, 2)
            op = {'op': 'drop', 't': t, 'cs': cs, 'single': rng.random() < 0.5, 'dst': dst}
        elif k in ('concat', 'add'):
            ts = [rng.randrange(len(mp)) for _ in range(rng.choice([0, 1, 2, 2, 2, 3]) if k == 'concat' else rng.choice([2, 3]))]
            if sum(mp[i].n for i in ts) <= 12:
                op = {'op': k, 'ts': ts, 'star': rng.random() < 0.5, 'dst': dst}
                if k == 'concat' and ts and rng.random() < 0.25:
                    ks_ = list(dict.fromkeys(gen.subset(rng, mp[ts[0]].cols + free[:1], 1))) if (mp[ts[0]].cols or free) else []
                    if ks_:
                        op['rec'] = {c: gen.cell(rng) for c in ks_}       # a plain record among the operands
        elif k == 'add_record' and m.n <= 10:
            ks = gen.subset(rng, (m.cols or ['a']) + free[:1], 1)
            op = {'op': 'add_record', 't': t, 'rec': {c: gen.cell(rng) for c in ks}, 'dst': dst}
            if rng.random() < 0.3 and m.cols:
                op['left'] = rng.choice(['record', 'list'])
        elif k == 'add_none':
            op = {'op': 'add_none', 't': t, 'none': rng.random() < 0.6, 'dst': dst}
        elif k == 'iadd' and m.n <= 8:
            # `x += other` rebinds the slot to whatever the statement leaves in x
            if rng.random() < 0.5:
                o = rng.randrange(len(mp))
                if mp[o].n + m.n <= 12:
                    op = {'op': 'iadd', 't': t, 'o': o, 'dst': t}
            else:
                ks = gen.subset(rng, (m.cols or ['a']) + free[:1], 1)
                op = {'op': 'iadd', 't': t, 'rec': {c: gen.cell(rng) for c in ks}, 'dst': t}
        elif k == 'copy':
            op = {'op': 'copy', 't': t, 'dst': dst}
        elif k == 'new_from_rows_of' and m.cols:
            op = {'op': 'new_from_rows_of', 't': t, 'dst': dst}
        if op is None:
            continue
        try:
            push(op)
        except HarnessError:
            continue
    case = {'ops': ops}
    if rng.random() < 0.08 and not any(o['op'] == 'new_kwargs' for o in ops):
        # the same history over columns that are called like parameters of the library's own constructors / methods (keyword construction excluded: there the names ARE the parameters)
        ren = {'a': 'data', 'b': 'columns', 'c': 'key', 'd': 'axis'}

        import re as _re

        def rn(x):
            if isinstance(x, str):
                m_ = _re.fullmatch(r'((?:[pPqQ]_)*)([a-dA-D])((?:_[sStT])*)', x)      # also the names derived from them by prefix / suffix / upper relabels
                if not m_:
                    return x
                core = ren[m_.group(2).lower()]
                return m_.group(1) + (core.upper() if m_.group(2).isupper() else core) + m_.group(3)
            if isinstance(x, list):
                return [rn(v) for v in x]
            if isinstance(x, dict):
                isop = 'op' in x      # the field names of an operation record are not column names
                y = {(k_ if isop else rn(k_)): ('item' if k_ == 'via' else rn(v)) for k_, v in x.items()}
                return y
            return x
        case = rn(case)
    return case


# ------------------------------------------------------------------ plumbing
SHRINK = True


def setup(ctx):
    contracts.install_dictable()


def plan(tier, seed, n):
    per, nops = (300, 25) if tier == 'quick' else (6000, 40)
    return [{'n': per, 'nops': nops} for _ in range(n)]


def run(spec, ctx):
    for i in range(spec['n']):
        rng = random.Random('C01/%d/%d/%d' % (spec['seed'], spec['shard'], i))
        case = gen_history(rng, spec['nops'])
        ctx.case(case)
        ctx.run_case(case, run_history)
        if ctx.full():
            break


def replay(case, ctx):
    ctx.case(case)
    ctx.run_case(case, run_history, shrink=False)
