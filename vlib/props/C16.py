"""C16 - ulist, dictattr and Dict implement ordered set / key algebra without side effects; Dict.__call__ evaluates in dependency order.

Monitor shape: ordered-set and mapping reference models + icontract uniqueness invariant on ulist + call recorder
inside generated functions for Dict.__call__ (every keyword order of each dependency graph)."""
import random, itertools
from .. import core, codec, contracts
from ..core import same, HarnessError, snap, snap_same

ID = 'C16'
TITLE = 'ulist / dictattr / Dict algebra; Dict.__call__ dependency order'
LEVEL = 'exploration'
TECHNIQUE = 'runtime monitoring: ordered-set and mapping reference models + icontract uniqueness invariant on ulist + call recorder for Dict.__call__ over every keyword order'
LEVEL_TEXT = 'Held on the lists/mappings explored and on every keyword order (<=720) of each generated dependency graph. A check says held on K observed executions, never verified.'
LEVEL_NOTE = 'Trusted: Python == for set elements; right operand of + is dict/dictattr/Dict.'
RULE = ('ulist: random lists of hashable elements x operators (+ | - &) x (element | list); dictattr/Dict/subclasses: random string-key mappings x key selections '
        '(present/absent/mixed) x (-, &, [list], [k1,k2], +, |, relabel, attribute access); Dict.__call__: random dependency graphs over <=6 derived keys '
        '(acyclic and cyclic, some redefining existing keys), EVERY keyword order of each graph (<=720); non-trivial = ulist operand with a duplicate or an '
        'absent element, key selection mixing present and absent keys, graph with >=1 derived->derived edge; distinct = canonical hash (call cases: graph + order)')
RULE_ALSO = '; added by the coverage audit and round 8: keys called self, ulist results edited in place, values of other dict subclasses under + / |, None held next to parameters with defaults'
ASSUMPTIONS = ['NaN elements are not generated for ulist', 'tuple keys (branch deletion) and dotted keys are not generated', 'd + other is checked against {**d, **o} on non-dict values only (nested merge is C15)',
               'self-loops in Dict.__call__ graphs are not generated', 'the right operand of + / | is a plain dict, dictattr or Dict (tree_update treats other subclasses as leaves by design)', 'keys do not start with _ and do not shadow dict methods']


def required(tier):
    return {'ulist_model': 300, 'ulist_unique': 1000, 'mapping_model': 500, 'mapping_unchanged': 500, 'call_result_model': 300, 'call_once_after_deps': 300, 'call_cycle_rejected': 20}


ELEMS = [0, 1, 2, 3, 'a', 'b', 'c', '', None, 2.5, {'$t': [1, 2]}, {'$t': []}, 1.0, True]


def leq(a, b):
    """ordered-set results are compared with Python equality per element (True == 1 == 1.0 is one element)"""
    return len(a) == len(b) and all(x is y or x == y for x, y in zip(a, b))


def oset(xs):
    out = []
    for x in xs:
        if not any(x is y or x == y for y in out):
            out.append(x)
    return out


def run_ulist(case, ctx):
    from pyg_base import ulist
    xs = codec.dec(case['xs'])
    other = codec.dec(case['other'])
    before = contracts.COUNTS['ulist_unique']
    try:
        u = ulist(list(xs))
        m = oset(xs)
        ok0 = type(u) is ulist and leq(list(u), m)
        ctx.check('ulist_model', ok0, lambda: 'ulist(%r) = %r, model %r' % (xs, list(u), m))
        s0 = list(u)
        op = case['op']
        is_list = isinstance(other, list)
        if op in ('+', '|'):
            exp = oset(m + (other if is_list else [other]))
            res = (u + other) if op == '+' else (u | other)
        elif op == '-':
            exp = [o for o in m if not (any(o is y or o == y for y in other) if is_list else (o is other or o == other))]
            res = u - other
        elif op == '&':
            exp = [o for o in m if (any(o is y or o == y for y in other) if is_list else (o is other or o == other))]
            res = u & other
        else:
            raise HarnessError(op)
        ctx.check('ulist_model', type(res) is ulist and leq(list(res), exp), lambda: 'ulist(%r) %s %r = %s %r, model %r' % (xs, op, other, type(res).__name__, list(res), exp))
        ctx.check('ulist_operand_unchanged', len(u) == len(s0) and all(a is b for a, b in zip(u, s0)), lambda: 'operand changed: %r -> %r' % (s0, list(u)))
        # the result is a ulist of its own (also when the operation changed nothing): editing it in place leaves the operand alone
        res.append('__edited_by_the_caller__')
        if len(res) > 1:
            res.remove(res[0])
        ctx.check('ulist_operand_unchanged', res is not u and len(u) == len(s0) and all(a is b for a, b in zip(u, s0)), lambda: 'ulist(%r) %s %r: editing the result in place changed the operand: %r -> %r' % (xs, op, other, s0, list(u)))
        res = type(res)(exp)
        res2 = res + res  # chained: stays unique
        ctx.check('ulist_model', type(res2) is ulist and leq(list(res2), exp), lambda: 'r + r = %r, model %r' % (list(res2), exp))
        if case.get('inplace'):
            # the list's own in-place ways of adding elements: still no duplicates, first occurrence keeps its place
            w = ulist(list(xs))
            mw = list(m)
            add = (other if is_list else [other])
            how = case['inplace']
            if how == 'append':
                for o in add:
                    w.append(o)
            elif how == 'extend':
                w.extend(add)
            elif how == 'iadd':
                w += add
            else:
                for o in add:
                    w.insert(0, o)
            for o in add:
                if not any(o is y or o == y for y in mw):
                    mw = ([o] + mw) if how == 'insert' else (mw + [o])
            ctx.check('ulist_model', type(w) is ulist and leq(list(w), mw), lambda: 'ulist(%r) after in-place %s of %r = %r, model %r' % (xs, how, add, list(w), mw))
    except contracts.InvariantBroken as e:
        ctx.fail('ulist_unique', str(e))
    finally:
        ctx.ev('ulist_unique', contracts.COUNTS['ulist_unique'] - before)
    if len(oset(xs)) != len(xs) or (not isinstance(other, list) and other not in xs) or (isinstance(other, list) and any(o not in xs for o in other)):
        ctx.mark_nontrivial(case)
    ctx.cls('ulist:%s:%s' % (case['op'], 'list' if isinstance(other, list) else 'elem'))


_CLASSES = {}


def classes():
    if not _CLASSES:
        from pyg_base import dictattr, Dict

        class MyAttr(dictattr):
            pass

        class MyDict(Dict):
            pass
        _CLASSES.update(dictattr=dictattr, Dict=Dict, MyAttr=MyAttr, MyDict=MyDict)
    return _CLASSES


def run_mapping(case, ctx):
    from pyg_base import ulist
    cls = classes()[case['cls']]
    base = codec.dec(case['d'])
    d = cls(base)
    if case.get('churn') and base and case['op'] != 'add_nested':
        # the keys were looked at before, then the mapping was edited in place without changing its size: whatever was remembered is stale
        d.keys(); dir(d)
        k0 = list(base)[0]
        v0 = d[k0]
        del d[k0]
        if case['churn'] == 'reorder':
            d[k0] = v0
        else:
            d[k0 + '9'] = v0
        base = dict(dict.items(d))
    s0 = snap(dict(d))
    from .C15 import idsnap as _idsnap, idsnap_same as _idsnap_same
    s0deep = _idsnap(d)
    op = case['op']
    sel = case.get('sel')
    keys = list(base)

    def attr_mirror(res, what):
        for k in list(res.keys()):
            if not (isinstance(k, str) and k.isidentifier() and not k.startswith('__')):
                continue
            st_, v = ctx.call(getattr, res, k)
            if not ctx.check('attr_mirrors_items', st_ == 'ok' and v is dict.__getitem__(res, k), lambda: 'result of %s: .%s -> %s %r but [%r] is %r' % (what, k, st_, v, k, dict.__getitem__(res, k))):
                return
        ks = [k for k in res.keys() if isinstance(k, str) and k.isidentifier() and not k.startswith('__')]
        if ks:
            k = ks[len(ks) // 2]
            new = object()
            res[k] = new
            st_, v = ctx.call(getattr, res, k)
            ctx.check('attr_mirrors_items', st_ == 'ok' and v is new, lambda: 'result of %s, after res[%r] = new: .%s -> %s %r' % (what, k, k, st_, v))
            del res[k]
            st_, v = ctx.call(getattr, res, k)
            ctx.check('attr_mirrors_items', st_ == 'exc' and isinstance(v, AttributeError), lambda: 'result of %s, after del res[%r]: .%s -> %s %r' % (what, k, k, st_, v))

    def chk(res, exp, what, mon='mapping_model'):
        ok = type(res) is cls and list(res.keys()) == list(exp.keys()) and all(dict.__getitem__(res, k) is exp[k] or same(dict.__getitem__(res, k), exp[k]) for k in exp)
        ctx.check(mon, ok, lambda: '%s(%r) %s %r = %s %r, model %r' % (case['cls'], base, what, sel, type(res).__name__, dict(res) if isinstance(res, dict) else res, exp))
        return ok
    if op == 'sub':
        arg = sel[0] if case.get('single') else list(sel)
        st, res = ctx.call(lambda: d - arg)
        exp = {k: v for k, v in base.items() if k not in sel}
        if st == 'ok' and chk(res, exp, '-'):
            st2, ks = ctx.call(lambda: d.keys() - arg)
            ctx.check('mapping_model', st2 == 'ok' and list(res.keys()) == list(ks) and type(res.keys()) is ulist, lambda: '(d-k).keys() %r != d.keys()-k %r' % (list(res.keys()), ks))
            res['__new__'] = 1
            attr_mirror(res, op)  # result is a new mapping: in-place edits must not leak into d
        elif st != 'ok':
            ctx.ev('mapping_model'); ctx.fail('mapping_model', 'd - %r raised %s' % (arg, core.exc_str(res)))
    elif op == 'and':
        arg = sel[0] if case.get('single') else list(sel)
        if case.get('view') and not case.get('single'):
            # the selection held as a view of a plain dict, or as a tuple
            arg = {'keys': {k: 1 for k in sel}.keys(), 'values': {i: k for i, k in enumerate(sel)}.values(), 'tuple': tuple(sel)}[case['view']]
        st, res = ctx.call(lambda: d & arg)
        exp = {k: v for k, v in base.items() if k in sel}
        if st == 'ok' and chk(res, exp, '&'):
            if not case.get('view'):      # the key-list identity is stated for a single element or a list
                st2, ks = ctx.call(lambda: d.keys() & arg)
                ctx.check('mapping_model', st2 == 'ok' and list(res.keys()) == list(ks), lambda: '(d&k).keys() %r != d.keys()&k %r' % (list(res.keys()), ks))
            res['__new__'] = 1
            attr_mirror(res, op)
        elif st != 'ok':
            ctx.ev('mapping_model'); ctx.fail('mapping_model', 'd & %r raised %s' % (arg, core.exc_str(res)))
    elif op == 'getlist':
        st, res = ctx.call(lambda: d[list(sel)])
        if all(k in base for k in sel):
            exp = {k: base[k] for k in sel}
            if st == 'ok' and chk(res, exp, '[list]'):
                res['__new__'] = 1
                attr_mirror(res, op)
            elif st != 'ok':
                ctx.ev('mapping_model'); ctx.fail('mapping_model', 'd[%r] raised %s' % (sel, core.exc_str(res)))
        else:
            ctx.check('mapping_model', st == 'exc' and isinstance(res, KeyError), lambda: 'd[%r] with an absent key -> %s %r' % (sel, st, res))
    elif op == 'gettuple':
        st, res = ctx.call(lambda: d[tuple(sel)])
        if all(k in base for k in sel):
            ctx.check('mapping_model', st == 'ok' and type(res) is list and len(res) == len(sel) and all(a is base[k] or same(a, base[k]) for a, k in zip(res, sel)), lambda: 'd[%r] = %r' % (tuple(sel), res))
        else:
            ctx.check('mapping_model', st == 'exc' and isinstance(res, KeyError), lambda: 'd[%r] with an absent key -> %s %r' % (tuple(sel), st, res))
    elif op == 'add_nested':
        from .C15 import m_merge, plainify, teq, idsnap, idsnap_same
        o = codec.dec(case['o'])
        if case.get('ordered_branches'):
            # some branches of d held as OrderedDicts (trees read from json / yaml loaders): branches like any other, copied not shared
            import collections
            for k_ in list(d.keys()):
                if type(d[k_]) is dict and (len(k_) + case['ordered_branches']) % 2:
                    dict.__setitem__(d, k_, collections.OrderedDict(d[k_]))
            ctx.cls('map:add_nested:ordered_branches')
        s_d, s_o = idsnap(d), idsnap(o)
        st, res = ctx.call(lambda: d + o)
        exp = m_merge(plainify(d), plainify(o), [])
        ctx.check('mapping_model', st == 'ok' and type(res) is cls and teq(res, exp), lambda: '%s(%r) + %r = %s %r, deep merge %r' % (case['cls'], base, case['o'], st, res, exp))
        ctx.check('mapping_unchanged', idsnap_same(idsnap(d), s_d) and idsnap_same(idsnap(o), s_o), lambda: 'd + other changed an operand below the first level: d=%r other=%r' % (plainify(d), plainify(o)))
        ctx.cls('map:%s:add_nested' % case['cls'])
        ctx.mark_nontrivial(case)
        return
    elif op in ('add', 'or'):
        o = codec.dec(case['o'])
        oo = o if case.get('oplain') else classes()[case.get('ocls', 'dictattr')](o)
        special = None
        if case.get('subclass_value'):
            # a value of `other` that is an instance of some other dict subclass (a Counter, an OrderedDict, possibly empty): a value like any other, it arrives untouched
            import collections
            special = {'counter': collections.Counter('aab'), 'ordered': collections.OrderedDict(b=1, a=2), 'empty_ordered': collections.OrderedDict(), 'empty_counter': collections.Counter(),
                       'defaultdict': collections.defaultdict(list, x=[1])}[case['subclass_value']]
            oo['sv'] = special
            o = dict(o, sv=special)
            ctx.cls('map:value_of_another_dict_subclass')
        so = snap(dict(oo))
        st, res = ctx.call((lambda: d + oo) if op == 'add' else (lambda: d | oo))
        exp = dict(base); exp.update(o)
        if special is not None and st == 'ok':
            ctx.check('mapping_model', 'sv' in res and res['sv'] is special and type(res['sv']) is type(special), lambda: 'd %s other: the value %r of other arrived as %s %r' % (op, special, type(res.get('sv')).__name__, res.get('sv')))
        if st == 'ok' and chk(res, exp, op):
            res['__new__'] = 1
            attr_mirror(res, op)
        elif st != 'ok':
            ctx.ev('mapping_model'); ctx.fail('mapping_model', 'd %s %r raised %s' % (op, o, core.exc_str(res)))
        ctx.check('mapping_unchanged', snap_same(snap(dict(oo)), so), lambda: 'right operand changed')
    elif op == 'relabel':
        how, mp = case['how'], case['map']
        if how == 'kw':
            f = lambda: d.relabel(**{k: v for k, v in mp.items()})
        elif how == 'rename':
            f = lambda: d.rename(**{k: v for k, v in mp.items()})
        elif how == 'prefix':
            f = lambda: d.relabel(case['arg'])
        elif how == 'suffix':
            f = lambda: d.relabel(case['arg'])
        elif how == 'upper':
            f = lambda: d.relabel(lambda s: s.upper())
        elif how == 'names':
            f = lambda: d.relabel([mp[k] for k in base]) if case.get('as_list', True) else d.relabel(*[mp[k] for k in base])        # one new name per key, in key order
        elif how == 'dict_kw':
            ks_ = list(mp)
            m1 = {k: mp[k] for k in ks_[:len(ks_) // 2]}
            m1_before = dict(m1)
            f = lambda: d.relabel(m1, **{k: mp[k] for k in ks_[len(ks_) // 2:]})
        else:
            f = lambda: d.relabel(dict(mp))
        st, res = ctx.call(f)
        if how == 'dict_kw':
            # the rename mapping belongs to the caller: unchanged, and usable again on its own
            st1, r1 = ctx.call(lambda: d.relabel(m1))
            exp1 = {m1_before.get(k, k): v for k, v in base.items()}
            ctx.check('mapping_unchanged', m1 == m1_before, lambda: 'relabel(mapping, **kw) edited the mapping it was given: %r -> %r' % (m1_before, m1))
            ctx.check('mapping_model', st1 == 'ok' and list(r1.keys()) == list(exp1.keys()), lambda: 'relabel(%r) after relabel(mapping, **kw) = %s %r, model %r' % (m1_before, st1, r1, exp1))
        exp = {mp.get(k, k): v for k, v in base.items()}
        if st == 'ok' and chk(res, exp, 'relabel'):
            res['__new__'] = 1
            attr_mirror(res, op)
        elif st != 'ok':
            ctx.ev('mapping_model'); ctx.fail('mapping_model', 'relabel raised %s' % core.exc_str(res))
    elif op == 'attr':
        for k in keys:
            st, v = ctx.call(getattr, d, k)
            ctx.check('mapping_model', st == 'ok' and (v is d[k]), lambda: 'd.%s -> %s %r vs d[%r]=%r' % (k, st, v, k, d[k]))
        st, v = ctx.call(getattr, d, 'zz_absent')
        ctx.check('mapping_model', st == 'exc' and isinstance(v, AttributeError), lambda: 'd.zz_absent -> %s %r' % (st, v))
        ks = d.keys()
        ctx.check('mapping_model', type(ks) is ulist and list(ks) == keys, lambda: 'keys() = %r' % (ks,))
    else:
        raise HarnessError(op)
    ctx.check('mapping_unchanged', snap_same(snap(dict(d)), s0) and type(d) is cls and _idsnap_same(_idsnap(d), s0deep), lambda: 'd changed by %s (at some depth): %r -> %r' % (op, base, dict(d)))
    if sel and any(k in base for k in sel) and any(k not in base for k in sel):
        ctx.mark_nontrivial(case)
    elif op in ('add', 'or') and set(case['o']) & set(base) and set(case['o']) - set(base):
        ctx.mark_nontrivial(case)
    ctx.cls('map:%s:%s' % (case['cls'], op))


def mk_fn(key, deps, log, kwonly=0, dflt=False, posdflt=False):
    """generated function: parameters are the dependency names (the last `kwonly` of them keyword-only, optionally with a default the mapping overrides);
    logs (key, args); value encodes its arguments"""
    npos = len(deps) - min(kwonly, len(deps))
    params = [('%s="DEFAULT"' % d_) if posdflt else d_ for d_ in deps[:npos]] + (['*'] + [('%s="DEFAULT"' % d_) if dflt else d_ for d_ in deps[npos:]] if npos < len(deps) else [])
    src = 'lambda %s: _rec(%r, (%s))' % (', '.join(params), key, ''.join(d + ', ' for d in deps))

    def _rec(k, args):
        log.append((k, args))
        return (k, args)
    return eval(src, {'_rec': _rec})


def run_call(case, ctx):
    from pyg_base import Dict
    cls = classes()[case.get('cls', 'Dict')]
    base = dict(case['base'])
    graph = case['graph']     # {key: [deps]}
    plain = case.get('plain', {})
    order = case['order']
    d = cls(base)
    s0 = snap(dict(d))
    log = []
    kwargs = {}
    for k in order:
        kwo = (case.get('kwonly') or {}).get(k, 0)
        kwargs[k] = plain[k] if k in plain else mk_fn(k, graph[k], log, kwonly=abs(kwo), dflt=kwo < 0, posdflt=bool(case.get('posdflt')) and not kwo)
    # model: topological evaluation
    env = dict(base); env.update(plain)
    derived = set(graph)
    exp, cyc, pending = dict(env), False, dict(graph)
    while pending:
        ready = [k for k, deps in pending.items() if not (set(deps) & set(pending))]
        if not ready:
            cyc = True
            break
        for k in ready:
            exp[k] = (k, tuple(exp[a] for a in pending[k]))
        for k in ready:
            pending.pop(k)
    st, res = ctx.call(lambda: d(**kwargs))
    if cyc:
        ctx.check('call_cycle_rejected', st == 'exc' and isinstance(res, ValueError), lambda: 'cyclic graph %s order %s -> %s %r' % (graph, order, st, res))
    else:
        ok = st == 'ok' and type(res) is cls and set(res.keys()) == set(exp) and all(same(res[k], exp[k]) for k in exp)
        ctx.check('call_result_model', ok, lambda: 'graph %s base %s order %s -> %s %r\nmodel %r' % (graph, base, order, st, dict(res) if st == 'ok' else res, exp))
        seen = [k for k, _ in log]
        pos = {k: i for i, k in enumerate(seen)}
        once = sorted(seen) == sorted(graph)
        after = once and all(pos[a] < pos[k] for k, deps in graph.items() for a in deps if a in derived)
        ctx.check('call_once_after_deps', once and after, lambda: 'graph %s order %s: evaluation log %s' % (graph, order, seen))
    ctx.check('mapping_unchanged', snap_same(snap(dict(d)), s0), lambda: 'd changed by __call__')
    if any(a in derived for deps in graph.values() for a in deps):
        ctx.mark_nontrivial(case)
    ctx.cls('call:%s' % ('cyclic' if cyc else 'dag'))
    if set(graph) & set(base):
        ctx.cls('call:redefines_existing')


def run_case(case, ctx):
    return {'ulist': run_ulist, 'map': run_mapping, 'call': run_call}[case['kind']](case, ctx)


# ------------------------------------------------------------------ generators
def gen_ulist(rng):
    xs = [rng.choice(ELEMS) for _ in range(rng.choice([0, 1, 2, 3, 5, 8]))]
    long_ = rng.random() < 0.06
    if long_:
        # long lists (tens of elements, repeats inside the operand too): any size-dependent path of the set operators is reached
        pool = ELEMS + list(range(10, 60)) + ['s%d' % i for i in range(20)]
        xs = [rng.choice(pool) for _ in range(rng.choice([20, 33, 40, 70]))]
    if rng.random() < 0.5:
        other = [rng.choice(ELEMS) for _ in range(rng.choice([0, 1, 2, 4]))]
        if long_:
            other = [rng.choice(pool + [100, 100, 101, 'new', 'new']) for _ in range(rng.choice([5, 20, 40]))]
    else:
        other = rng.choice(xs) if xs and rng.random() < 0.5 else rng.choice(ELEMS)
    case = {'kind': 'ulist', 'xs': xs, 'op': rng.choice(['+', '|', '-', '&']), 'other': other}
    if rng.random() < 0.3:
        case['inplace'] = rng.choice(['append', 'extend', 'iadd', 'insert'])
    return case


KEYS = ['a', 'b', 'c', 'd', 'x1', 'y2', '_id', '_x', 'self', 'data', 'other', 'value']      # some are called like parameters of the library's own methods
VALS = [0, 1, 'v', None, [1, 2], {'$t': [1]}, 2.5, 'w']


def gen_map(rng):
    if rng.random() < 0.08:
        from .C15 import gen_tree
        c_ = {'kind': 'map', 'cls': rng.choice(['Dict', 'MyDict']), 'd': gen_tree(rng, rng.randint(2, 4), 'dict'), 'op': 'add_nested', 'o': gen_tree(rng, rng.randint(1, 4), 'dict')}
        if rng.random() < 0.3:
            c_['ordered_branches'] = rng.choice([1, 2])
        return c_
    ks = rng.sample(KEYS, rng.randint(0, 5))
    d = {k: rng.choice(VALS) for k in ks}
    cls = rng.choice(['dictattr', 'Dict', 'MyAttr', 'MyDict'])
    op = rng.choice(['sub', 'sub', 'and', 'and', 'getlist', 'gettuple', 'add', 'or', 'relabel', 'attr'])
    case = {'kind': 'map', 'cls': cls, 'd': d, 'op': op}
    if op in ('add', 'or') and rng.random() < 0.2:
        case['subclass_value'] = rng.choice(['counter', 'ordered', 'empty_ordered', 'empty_counter', 'defaultdict'])
    absent = [k for k in KEYS + ['zz'] if k not in ks]
    if op in ('sub', 'and', 'getlist', 'gettuple'):
        mode = rng.choice(['present', 'absent', 'mixed', 'empty'])
        if mode == 'present' and ks:
            sel = rng.sample(ks, rng.randint(1, len(ks)))
        elif mode == 'absent':
            sel = rng.sample(absent, rng.randint(1, min(2, len(absent))))
        elif mode == 'mixed' and ks:
            sel = rng.sample(ks, rng.randint(1, len(ks))) + rng.sample(absent, 1)
            rng.shuffle(sel)
        else:
            sel = []
        if op in ('getlist', 'gettuple') and not sel:
            sel = (ks or absent)[:1]
        if op in ('sub', 'and') and ks and rng.random() < 0.15:
            # a key that is absent but reads like a path into a nested value of d
            k0 = rng.choice(ks)
            d[k0] = {'b': 1, 'c': {'x': 2}}
            sel = sel + [k0 + '.b'] if rng.random() < 0.6 else [k0 + '.b']
        case['sel'] = sel
        case['single'] = len(sel) == 1 and rng.random() < 0.5
        if rng.random() < 0.2:
            case['churn'] = rng.choice(['reorder', 'rename'])
        if op == 'and' and rng.random() < 0.3:
            case['view'] = rng.choice(['keys', 'values', 'tuple'])
        if op in ('getlist', 'gettuple') and len(sel) == 1 and op == 'gettuple':
            case['sel'] = sel + sel
    elif op in ('add', 'or'):
        oks = rng.sample(KEYS, rng.randint(0, 4))
        case['o'] = {k: rng.choice([5, 6, 'n', None, [3]]) for k in oks}
        case['oplain'] = rng.random() < 0.6
        case['ocls'] = rng.choice(['dictattr', 'Dict'])
    elif op == 'relabel':
        how = rng.choice(['kw', 'rename', 'dict', 'prefix', 'suffix', 'upper', 'dict_kw', 'names'])
        case['how'] = how
        if how == 'names':
            if not ks:
                how = case['how'] = 'upper'
            else:
                case['map'] = {k: 'N%d' % i for i, k in enumerate(ks)}
                case['as_list'] = rng.random() < 0.6
        if how in ('kw', 'rename', 'dict', 'dict_kw'):
            if len(ks) >= 2 and rng.random() < 0.35:
                # a permutation of existing names (swap / rotation) or a shift onto a name that is itself renamed away
                sel = rng.sample(ks, rng.randint(2, min(3, len(ks))))
                if rng.random() < 0.5:
                    case['map'] = {o: n for o, n in zip(sel, sel[1:] + sel[:1])}
                else:
                    case['map'] = {o: n for o, n in zip(sel, sel[1:] + ['n9'])}
            else:
                olds = rng.sample(ks, rng.randint(0, min(2, len(ks)))) + (rng.sample(absent, 1) if rng.random() < 0.3 else [])
                news = ['n%d' % i for i in range(len(olds))]
                case['map'] = {o: n for o, n in zip(olds, news)}
        elif how == 'prefix':
            case['arg'] = 'p_'; case['map'] = {k: 'p_' + k for k in ks}
        elif how == 'suffix':
            case['arg'] = '_s'; case['map'] = {k: k + '_s' for k in ks}
        elif how != 'names':
            case['map'] = {k: k.upper() for k in ks}
        if case['how'] in ('kw', 'rename', 'dict_kw') and 'self' in case['map']:
            case['how'] = 'dict'        # as a keyword, 'self' IS the method's parameter
        # relabel only maps keys that exist; absent olds must be ignored by the library
        case['map'] = {k: v for k, v in case['map'].items()}
    return case


def gen_graph(rng):
    nb = rng.randint(0, 3)
    base = {('b%d' % i): i + 1 for i in range(nb)}
    if rng.random() < 0.3:
        base['key'] = 'own-value-of-key'     # a mapping may well have an entry called 'key': arguments are taken by name from the mapping
    if rng.random() < 0.15:
        base['self'] = 'own-value-of-self'   # ... or one called 'self': it is a string key like any other
    nd = rng.randint(1, 6) if rng.random() < 0.8 else rng.randint(5, 6)
    dkeys = ['k%d' % i for i in range(nd)]
    # some derived keys redefine existing base keys
    for i in range(nd):
        if base and rng.random() < 0.2:
            dkeys[i] = rng.choice([b for b in base if b != 'self'] or dkeys[i:i + 1])       # (a definition is given by keyword, and no Python method takes a keyword called self)
    dkeys = list(dict.fromkeys(dkeys))
    cyclic = rng.random() < 0.2 and len(dkeys) >= 2
    perm = dkeys[:]
    rng.shuffle(perm)
    graph = {}
    for i, k in enumerate(perm):
        cands = list(dict.fromkeys(perm[:i] + [b for b in base if b != k and b not in perm]))
        deps = rng.sample(cands, rng.randint(0, min(3, len(cands)))) if cands else []
        graph[k] = deps
    if cyclic:
        a, b = rng.sample(perm, 2)
        if b not in graph[a]:
            graph[a].append(b)
        if a not in graph[b]:
            graph[b].append(a)
    if not cyclic and rng.random() < 0.12 and len(perm) >= 2:
        # a definition that names its own key among its arguments AND is needed by another derived key: a circle of length one is a circle
        k0 = perm[0]
        if k0 not in graph[k0]:
            graph[k0] = graph[k0] + [k0]
        dependant = perm[-1]
        if k0 not in graph[dependant]:
            graph[dependant] = graph[dependant] + [k0]
    plain = {}
    if rng.random() < 0.3:
        plain = {'pz': 99}
        k = rng.choice(perm)
        if 'pz' not in graph[k]:
            graph[k] = graph[k] + ['pz']
    return base, graph, plain


def plan(tier, seed, n):
    per, ng = (600, 10) if tier == 'quick' else (30000, 400)
    return [{'n': per, 'ng': ng} for _ in range(n)]


def setup(ctx):
    contracts.install_ulist()


def run(spec, ctx):
    for i in range(spec['n']):
        rng = random.Random('C16/%d/%d/%d' % (spec['seed'], spec['shard'], i))
        case = gen_ulist(rng) if rng.random() < 0.4 else gen_map(rng)
        ctx.case(case)
        ctx.run_case(case, run_case)
        if ctx.full():
            return
    for i in range(spec['ng']):
        rng = random.Random('C16g/%d/%d/%d' % (spec['seed'], spec['shard'], i))
        base, graph, plain = gen_graph(rng)
        names = list(graph) + list(plain)
        perms = itertools.permutations(names)
        cap = 720 if spec['tier'] == 'thorough' else 120
        allp = list(itertools.islice(perms, 5040))
        if len(allp) > cap:
            allp = rng.sample(allp, cap)
        kwonly = {}
        if rng.random() < 0.4:
            # some functions take (some of) their arguments as keyword-only parameters; negative = with a default that the mapping's value replaces
            for k_, deps_ in graph.items():
                if deps_ and rng.random() < 0.5:
                    kwonly[k_] = rng.randint(1, len(deps_)) * rng.choice([1, 1, -1])
        posdflt = rng.random() < 0.3         # every parameter declares a default of its own: what the mapping holds under that name (None included) still wins
        if rng.random() < 0.3 and base:
            base[rng.choice([b for b in base])] = None          # None is a value a mapping may hold
        ctx.cls('call:graphs')
        if len(allp) == len(list(itertools.islice(itertools.permutations(names), 5041))):
            ctx.cls('call:graphs_all_orders')
        for order in allp:
            case = {'kind': 'call', 'base': base, 'graph': graph, 'plain': plain, 'order': list(order), 'cls': rng.choice(['Dict', 'Dict', 'MyDict'])}
            if kwonly:
                case['kwonly'] = kwonly
            if posdflt:
                case['posdflt'] = True
            ctx.case(case)
            ctx.run_case(case, run_case)
            if ctx.full():
                return


def replay(case, ctx):
    ctx.case(case)
    ctx.run_case(case, run_case, shrink=False)
