"""C15 - tree flatten/rebuild are inverse; tree_update is a non-destructive deep merge; table_to_tree/tree_to_table inverse.

Monitor shape: own flatten / rebuild / recursive-merge reference model + deep operand snapshots (identity-aware: every branch of
t and u must still be the same object with the same content after the call)."""
import random, collections
from .. import core, codec
from ..core import same, HarnessError, snap, snap_same

ID = 'C15'
TITLE = 'tree flatten/rebuild inverse; tree_update non-destructive deep merge'
LEVEL = 'exploration'
TECHNIQUE = 'runtime monitoring: own flatten / rebuild / recursive-merge model + identity-aware deep snapshots of every branch of t and u'
LEVEL_TEXT = 'Held on the trees and (t,u) pairs explored incl. leaf-vs-branch conflicts, ignore lists, aliased branches, 1-4 wildcard patterns. A check says held on K observed executions, never verified.'
LEVEL_NOTE = 'Trusted: the merge model; results compared as mappings, root type separately.'
RULE = ('random trees over a 5-letter key alphabet (forcing overlap), depth<=4, branching<=4, leaves None/int/str/list, dict/Dict/dictattr roots with mixed branch types, no empty '
        'branches; pairs (t,u) with overlapping branches, leaf-vs-branch conflicts and ignore lists; table<->tree with patterns of 1-4 wildcards (wildcard- and literal-terminated); '
        'non-trivial = (t,u) sharing >=1 branch at depth>=2, or a pattern with >=2 rows; distinct = canonical hash')
RULE_ALSO = "; added by the coverage audit and round 8: items handed over as one-shot iterables, patterns written from the root ('/a/%b')"
ASSUMPTIONS = ['keys containing dots are addressed through tuple / list paths only (a dotted string path is split by design)', 'empty branches are not generated (they vanish when flattened)', 'results are compared as mappings (a dict subclass equals a dict with the same items), root type checked separately',
               'with an ignore list, a leaf-vs-branch conflict is still resolved in u\'s favour (the branch is created before the ignored leaf is skipped), as the library does']
KEYS = ['a', 'b', 'c', 'd', 'e']
DOTTED = ['a', 'b', 'c', 'a.b', 'v1.0']     # string keys may contain dots: they are then addressed through tuple / list paths


def required(tier):
    return {'flatten_rebuild_inverse': 200, 'keys_values_align': 200, 'getitem_per_path': 500, 'update_merge_model': 300, 'update_identities': 300, 'operands_unmodified_deep': 300,
            'dict_add': 100, 'table_tree_inverse': 200}


def is_branch(x):
    return isinstance(x, dict)


def m_items(t, path=()):
    out = []
    for k, v in t.items():
        if is_branch(v):
            out.extend(m_items(v, path + (k,)))
        else:
            out.append(path + (k, v))
    return out


def plainify(t):
    return {k: plainify(v) if is_branch(v) else v for k, v in t.items()} if is_branch(t) else t


def m_merge(t, u, ignore):
    """u's leaves override; branches on both sides merge; leaf-vs-branch conflicts go u's way; ignored leaves keep an existing value"""
    res = {k: plainify(v) for k, v in t.items()}
    for k, v in u.items():
        if is_branch(v):
            if k in res and is_branch(res[k]):
                res[k] = m_merge(res[k], v, ignore)
            else:
                res[k] = m_merge({}, v, ignore)
        else:
            if k in res and any(_ieq(v, i) for i in ignore):
                continue
            res[k] = v
    return res


def _ieq(a, b):
    return a is b or (type(a) is type(b) and a == b) or (isinstance(a, (int, float)) and isinstance(b, (int, float)) and not isinstance(a, bool) and not isinstance(b, bool) and a == b)


def _all_keys(t):
    out = []
    for k, v in t.items():
        out.append(k)
        if is_branch(v):
            out.extend(_all_keys(v))
    return out


def teq(a, b):
    if is_branch(a) or is_branch(b):
        return is_branch(a) and is_branch(b) and set(a) == set(b) and all(teq(dict.__getitem__(a, k), dict.__getitem__(b, k)) for k in a)
    return same(a, b)


def idsnap(t):
    """identity + content snapshot of every branch"""
    out = []

    def walk(x, path):
        out.append((path, id(x), type(x), [(k, id(v) if is_branch(v) else snap(v)) for k, v in dict.items(x)]))
        for k, v in dict.items(x):
            if is_branch(v):
                walk(v, path + (k,))
    walk(t, ())
    return out


def idsnap_same(a, b):
    if len(a) != len(b):
        return False
    for (p1, i1, t1, c1), (p2, i2, t2, c2) in zip(a, b):
        if p1 != p2 or i1 != i2 or t1 is not t2 or len(c1) != len(c2):
            return False
        for (k1, v1), (k2, v2) in zip(c1, c2):
            if k1 != k2 or not (v1 == v2 if isinstance(v1, int) and isinstance(v2, int) else snap_same(v1, v2)):
                return False
    return True


def depth2_shared(t, u, d=1):
    for k in t:
        if k in u and is_branch(t[k]) and is_branch(u[k]):
            if d >= 1 and any(kk in u[k] and is_branch(t[k][kk]) and is_branch(u[k][kk]) for kk in t[k]):
                return True
            if depth2_shared(t[k], u[k], d + 1):
                return True
    return False


def run_tree(case, ctx):
    from pyg_base import tree_items, tree_keys, tree_values, items_to_tree, tree_getitem, tree_update, Dict, dictattr
    from pyg_base._dict import tree_get
    t = codec.dec(case['t'])
    if case.get('alias'):
        # the same branch object hangs under two paths of t
        src, dst = case['alias']
        if src in t and isinstance(dict.__getitem__(t, src), dict):
            dict.__setitem__(t, dst, dict.__getitem__(t, src))
    eb = case.get('empty_branch')
    if eb == 'subclass':
        # below the root t also holds a branch whose type is a subclass of dict (an OrderedDict): a branch like any other for the merge, and not to be written into
        import collections
        dict.__setitem__(t, 'ob', collections.OrderedDict([('x', 1), ('y', collections.OrderedDict([('z', 2)]))]))
    elif eb:
        # t also holds a branch without leaves (that u never writes into): a merge keeps it like everything else of t
        dict.__setitem__(t, 'eb', {} if eb == 'flat' else {'x': {}, 'y': 1})
    mt = plainify(t)
    s0 = idsnap(t)
    if not eb:      # flatten / rebuild / getitem are stated for trees whose branches are non-empty
        st, items = ctx.call(tree_items, t)
        exp_items = m_items(mt)
        ok = st == 'ok' and isinstance(items, list) and len(items) == len(exp_items) and all(isinstance(a, tuple) and a[:-1] == b[:-1] and same(a[-1], b[-1]) for a, b in zip(items, exp_items))
        if not ctx.check('flatten_rebuild_inverse', ok, lambda: 'tree_items(%r) = %r, model %r' % (case['t'], items, exp_items)):
            return
        st, back = ctx.call(items_to_tree, items)
        ctx.check('flatten_rebuild_inverse', st == 'ok' and teq(back, mt) and back == t, lambda: 'items_to_tree(tree_items(t)) = %r != t = %r' % (back, mt))
        if case.get('one_shot_items'):
            # the items handed over as a one-shot iterable (an iterator / a generator), which the call has to consume exactly once
            it = iter(list(items)) if case['one_shot_items'] == 'iter' else (i_ for i_ in list(items))
            st, back = ctx.call(items_to_tree, it, raise_if_duplicate=False)
            ctx.check('flatten_rebuild_inverse', st == 'ok' and teq(back, mt) and back == t, lambda: 'items_to_tree(<%s over tree_items(t)>, raise_if_duplicate = False) = %s %r != t = %r' % (case['one_shot_items'], st, back, mt))
            ctx.cls('items_as_one_shot_iterable')
        st1, ks = ctx.call(tree_keys, t)
        st2, vs = ctx.call(tree_values, t)
        ctx.check('keys_values_align', st1 == st2 == 'ok' and list(ks) == [i[:-1] for i in exp_items] and len(vs) == len(exp_items) and all(same(a, b[-1]) for a, b in zip(vs, exp_items)),
                  lambda: 'tree_keys=%r tree_values=%r items=%r' % (ks, vs, exp_items))
        for it in exp_items:
            path, leaf = list(it[:-1]), it[-1]
            dotted = any('.' in k for k in path) or any('.' in k for k in _all_keys(mt))
            for p in ((path, tuple(path)) if dotted else (path, '.'.join(path), tuple(path))):
                st, got = ctx.call(tree_getitem, t, p)
                if not ctx.check('getitem_per_path', st == 'ok' and (got is leaf or same(got, leaf)), lambda: 'tree_getitem(t, %r) = %s %r expected %r' % (p, st, got, leaf)):
                    return
            st, got = ctx.call(tree_get, t, path if dotted else '.'.join(path))
            ctx.check('getitem_per_path', st == 'ok' and same(got, leaf), lambda: 'tree_get(t, %r) = %r' % (path, got))
        ctx.check('operands_unmodified_deep', idsnap_same(idsnap(t), s0), lambda: 'flatten/getitem modified t')
        if exp_items and not case.get('alias') and not any('.' in k for k in _all_keys(mt)):
            # tree_setitem on an existing leaf path of a private copy: exactly that leaf changes
            from pyg_base._dict import tree_setitem
            import copy as _copy
            priv = _copy.deepcopy(t)
            it = exp_items[len(exp_items) // 2]
            path = list(it[:-1])
            st, _ = ctx.call(tree_setitem, priv, '.'.join(path) if len(path) % 2 else tuple(path), 'NEW')
            after = m_items(plainify(priv)) if st == 'ok' else None
            want = [i if list(i[:-1]) != path else tuple(path) + ('NEW',) for i in exp_items]
            ctx.check('setitem_changes_one_leaf', st == 'ok' and len(after) == len(want) and all(a[:-1] == b[:-1] and same(a[-1], b[-1]) for a, b in zip(after, want)), lambda: 'tree_setitem(t, %r, NEW) -> %s %r' % (path, st, after))
    # ---- update
    if 'u' in case:
        u = codec.dec(case['u'])
        if eb == 'subclass':
            dict.__setitem__(u, 'ob', {'x': 5, 'w': 6, 'y': {'v': 7}})
        mu = plainify(u)
        ignore = codec.dec(case['ignore']) if case.get('ignore') is not None else None
        su = idsnap(u)
        kw = {} if ignore is None else {'ignore': ignore}
        st, res = ctx.call(tree_update, t, u, **kw)
        exp = m_merge(mt, mu, ignore or [])
        ok = st == 'ok' and teq(res, exp) and type(res) is type(t)
        ctx.check('update_merge_model', ok, lambda: 'tree_update(%r, %r, ignore=%r) = %s %r\nrecursive merge gives %r' % (case['t'], case['u'], case.get('ignore'), st, res, exp))
        unmod = idsnap_same(idsnap(t), s0) and idsnap_same(idsnap(u), su)
        ctx.check('operands_unmodified_deep', unmod, lambda: 'tree_update modified an operand at depth: t %r -> %r ; u %r -> %r' % (mt, plainify(t), mu, plainify(u)))
        if ok and unmod and isinstance(res, dict):
            # the merge belongs to the caller: writing into every branch of it (also those the update never touched) leaves t as it was
            def scribble(node, depth=0):
                if isinstance(node, dict) and depth < 8:
                    for v_ in list(dict.values(node)):
                        scribble(v_, depth + 1)
                    dict.__setitem__(node, '__written_by_the_caller__', depth)
            scribble(res)
            ctx.check('operands_unmodified_deep', idsnap_same(idsnap(t), s0), lambda: 'writing into the branches of tree_update(t, u) changed t: %r -> %r' % (mt, plainify(t)))
        st, r2 = ctx.call(tree_update, t, t)
        ctx.check('update_identities', st == 'ok' and teq(r2, mt), lambda: 'tree_update(t,t) = %r != t %r' % (r2, mt))
        st, r3 = ctx.call(tree_update, t, {})
        ctx.check('update_identities', st == 'ok' and teq(r3, mt), lambda: 'tree_update(t,{}) = %r != t %r' % (r3, mt))
        if isinstance(t, Dict) and ignore is None:
            st, r4 = ctx.call(lambda: t + u)
            ctx.check('dict_add', st == 'ok' and teq(r4, exp) and type(r4) is type(t), lambda: 'Dict + dict = %r, merge %r' % (r4, exp))
            if st == 'ok' and isinstance(r4, Dict):
                # a sum is a tree like any other: used as the left operand again it is not modified
                s4 = idsnap(r4)
                u2 = {'zz': {'w': 1}, 'a': 'again'}
                st5, r5 = ctx.call(lambda: r4 + u2)
                ctx.check('dict_add', st5 == 'ok' and teq(r5, m_merge(exp, u2, [])), lambda: '(t + u) + u2 = %r, merge %r' % (r5, m_merge(exp, u2, [])))
                ctx.check('operands_unmodified_deep', idsnap_same(idsnap(r4), s4) and teq(r4, exp), lambda: '(t + u) was modified when it was used as the left operand of another +: now %r, was %r' % (plainify(r4), exp))
            ctx.check('operands_unmodified_deep', idsnap_same(idsnap(t), s0) and idsnap_same(idsnap(u), su), lambda: 'Dict + dict modified an operand at depth')
        if depth2_shared(mt, mu):
            ctx.mark_nontrivial(case)
            ctx.cls('shared_branch_depth>=2')
        if case.get('ignore') is not None:
            ctx.cls('with_ignore')
    ctx.cls('root:' + type(t).__name__)


def run_table(case, ctx):
    from pyg_base import dictable
    from pyg_base._tree import tree_to_table
    from pyg_base._table_to_tree import table_to_tree
    pattern = case['pattern']
    rows = codec.dec(case['rows'])
    segs = pattern.split('/')
    # model tree
    mt = {}
    for r in rows:
        item = [r[s[1:]] if s.startswith('%') else s for s in segs]
        node = mt
        for k in item[:-2]:
            node = node.setdefault(k, {})
        node[item[-2]] = item[-1]
    src = dictable(rows) if case.get('as_dictable') and rows else list(rows)
    if case.get('as_row_dict') and len(rows) == 1:
        src = dict(rows[0])           # a one-row table given as the row itself
    st, tree = ctx.call(table_to_tree, None, pattern, src)
    if not ctx.check('table_tree_inverse', st == 'ok' and teq(tree, mt), lambda: 'table_to_tree(None, %r, %r) = %s %r, model %r' % (pattern, rows, st, tree, mt)):
        return
    s0 = idsnap(tree)
    for rep in range(2):   # twice: state must not leak between calls
        st, back = ctx.call(tree_to_table, tree, pattern)
        okb = st == 'ok' and isinstance(back, list) and collections.Counter(_rk(r) for r in back) == collections.Counter(_rk(r) for r in rows) and len({id(r) for r in back}) == len(back)
        if not ctx.check('table_tree_inverse', okb, lambda: 'tree_to_table(table_to_tree(rows), %r) call %d = %r\nrows %r' % (pattern, rep + 1, back, rows)):
            return
    if rows:
        st, d = ctx.call(dictable, tree, pattern)
        wild = sorted(s[1:] for s in segs if s.startswith('%'))
        okd = st == 'ok' and sorted(d.keys()) == wild and collections.Counter(_rk(dict(r)) for r in d) == collections.Counter(_rk(r) for r in rows)
        ctx.check('table_tree_inverse', okd, lambda: 'dictable(tree, %r) = %r\nrows %r' % (pattern, d, rows))
    ctx.check('operands_unmodified_deep', idsnap_same(idsnap(tree), s0), lambda: 'tree_to_table modified the tree')
    if len(rows) >= 2:
        ctx.mark_nontrivial(case)
    ctx.cls('pattern:%dwild:%s' % (sum(s.startswith('%') for s in segs), 'literal_end' if not segs[-1].startswith('%') else 'wild_end'))


def _rk(r):
    return tuple(sorted((k, repr(v)) for k, v in r.items()))


def run_case(case, ctx):
    return run_table(case, ctx) if case['kind'] == 'table' else run_tree(case, ctx)


# ------------------------------------------------------------------ generators
def leaf(rng):
    return rng.choice([None, 0, 1, 2, 'x', 'y', '', [1, 2], [], ['x'], 0.0])


def gen_tree(rng, depth, root, keys=None):
    keys = keys or KEYS

    def node(d, tp):
        n = rng.randint(1, 4 if d < 3 else 2)
        body = {}
        for k in rng.sample(keys, n):
            if d < depth and rng.random() < 0.5:
                body[k] = node(d + 1, tp if rng.random() < 0.7 else rng.choice(['dict', 'Dict', 'dictattr']))
            else:
                body[k] = leaf(rng)
        return body if tp == 'dict' else {'$' + tp: body}
    return node(1, root)


def gen_case(rng):
    if rng.random() < 0.3:
        nw = rng.randint(1, 4)
        nlit = rng.randint(0, 2)
        segs = ['%w' + str(i) for i in range(nw)] + [('w%d' % rng.randrange(nw) if rng.random() < 0.3 else 'L%d' % i) for i in range(nlit)]   # a fixed segment may be named like a wildcard: 'markets/%market/weight/%weight'
        if len(set(segs)) < len(segs):
            segs = list(dict.fromkeys(segs))
        rng.shuffle(segs)
        if len(segs) == 1:
            segs = ['L9'] + segs if segs[0].startswith('%') else segs + ['%w0']
        last_wild = segs[-1].startswith('%')
        pathw = [s[1:] for s in segs[:-1] if s.startswith('%')]
        nrows = rng.choice([0, 1, 2, 3, 5]) if pathw else rng.choice([0, 1])
        rows, seen = [], set()
        for _ in range(nrows * 3):
            if len(rows) >= nrows:
                break
            r = {w: rng.choice(['p', 'q', 'r', 's']) for w in pathw}
            key = tuple(r[w] for w in pathw)
            if key in seen:
                continue
            seen.add(key)
            if last_wild:
                r[segs[-1][1:]] = rng.choice([1, 2, 'v', 0.5, 'p', 0, '', None, 0.0, [100, -40], [], ['x']])
            rows.append(r)
        if rng.random() < 0.12:
            segs = [''] + segs          # a pattern written from the root, '/book/%ticker': its first literal key is the empty string
        return {'kind': 'table', 'pattern': '/'.join(segs), 'rows': rows, 'as_dictable': rng.random() < 0.5, 'as_row_dict': rng.random() < 0.5}
    root = rng.choice(['dict', 'dict', 'Dict', 'dictattr'])
    r_ = rng.random()
    keys = DOTTED if r_ < 0.2 else (['tree', 'ignore', 'types', 'items', 'data', 'key'] if r_ < 0.28 else KEYS)     # keys called like the parameters of the tree functions
    case = {'kind': 'tree', 't': gen_tree(rng, rng.randint(1, 4), root, keys)}
    if rng.random() < 0.06:
        case['t'] = {} if root == 'dict' else {'$' + root: {}}       # an empty starting tree
    if rng.random() < 0.25:
        case['alias'] = [rng.choice(KEYS), rng.choice(KEYS + ['f'])]
        if case['alias'][0] == case['alias'][1]:
            del case['alias']
    if rng.random() < 0.1 and 'alias' not in case:
        case['empty_branch'] = rng.choice(['flat', 'nested', 'subclass', 'subclass'])
    if rng.random() < 0.8 or case.get('empty_branch'):
        case['u'] = gen_tree(rng, rng.randint(1, 4), rng.choice(['dict', 'dict', 'Dict', 'dictattr']), keys)
        if rng.random() < 0.35:
            case['ignore'] = rng.choice([[None], [None, 0], [0, ''], [None, 'x', 1], ['y'], [[]], [[1, 2]], [[], None]])       # a leaf may be a list, so may an ignored value
    if rng.random() < 0.2:
        case['one_shot_items'] = rng.choice(['iter', 'generator'])
    return case


def plan(tier, seed, n):
    per = 800 if tier == 'quick' else 40000
    return [{'n': per} for _ in range(n)]


def run(spec, ctx):
    for i in range(spec['n']):
        rng = random.Random('C15/%d/%d/%d' % (spec['seed'], spec['shard'], i))
        case = gen_case(rng)
        ctx.case(case)
        ctx.run_case(case, run_case)
        if ctx.full():
            break


def replay(case, ctx):
    ctx.case(case)
    ctx.run_case(case, run_case, shrink=False)
