"""C13 - df_slice keeps exactly the rows in the interval; stitching switches at bounds; df_unslice inverts it.

Monitor shape: timestamp-filter reference model with the two bracket characters (values are unique ids so rows are identified);
stitching compared as a mapping timestamp -> row plus an at-most-once count; df_unslice checked by re-stitching."""
import random, datetime
import numpy as np
from .. import core, codec
from ..core import HarnessError

ID = 'C13'
TITLE = 'df_slice interval filter; stitching at bounds; df_unslice inverse'
LEVEL = 'exploration'
TECHNIQUE = 'runtime monitoring: timestamp-filter reference model for the four bracket pairs and time-of-day windows; stitching as a mapping timestamp->row with at-most-once count; unslice by re-stitching'
LEVEL_TEXT = 'Held on the series/bounds explored with >=50% of bounds exactly on index points. A check says held on K observed executions, never verified.'
LEVEL_NOTE = 'Trusted: the filter model; a stitched result is compared as a mapping (the statement fixes no row order).'
RULE = ('random datetime-indexed Series/DataFrames (daily and intraday grids with gaps, empty), lb/ub before/on/between/after index points (>=50% ON an index point), all four bracket pairs, '
        'dates and times of day (incl. windows wrapping past midnight); stitching of 2-5 series at increasing/decreasing bound lists for every n in 1..k; df_unslice round trip; '
        'non-trivial = >=1 bound coinciding with an index point; distinct = canonical hash')
RULE_ALSO = '; added by the coverage audit and round 8: lower-bound lists, both bound lists, one series cut by several windows, tz-aware index cut by bounds quoted in another zone, a far-away last bound'
ASSUMPTIONS = ['the statement fixes no row order for a stitched result: it is compared as a mapping timestamp -> row and each timestamp must occur at most once',
               'df_unslice round trips use NaN-free member series (nona drops NaN rows by design)', 'indices are sorted and unique']
T0 = datetime.datetime(2023, 6, 1)
NAN = float('nan')


def required(tier):
    return {'slice_rows_model': 400, 'time_of_day_model': 100, 'stitch_model': 120, 'each_timestamp_at_most_once': 120, 'unslice_roundtrip': 60, 'input_unmodified': 400}


def isn(v):
    return v != v


BASE = {'now': T0}


def tstamp(i, grid):
    return BASE['now'] + (datetime.timedelta(days=i) if grid == 'd' else datetime.timedelta(hours=i))


def mk_ts(spec, grid):
    import pandas as pd
    us = spec.get('us') or [0] * len(spec['ts'])
    idx = pd.DatetimeIndex([tstamp(i, grid) + datetime.timedelta(microseconds=u) for i, u in zip(spec['ts'], us)])
    if spec.get('objidx') and len(idx):
        idx = pd.Index([t.to_pydatetime() for t in idx], dtype=object)       # the datetimes held in a plain object Index (what a frame built from a dict of python datetimes / read from some stores carries)
    if len(spec['cols']) == 1 and not spec.get('frame'):
        return pd.Series([NAN if v is None else float(v) for v in spec['cols'][0]], index=idx, dtype=float)
    mat = np.array([[NAN if v is None else float(v) for v in c] for c in spec['cols']], dtype=float).T.reshape(len(idx), len(spec['cols']))
    return pd.DataFrame(mat, index=idx, columns=['c%d' % j for j in range(len(spec['cols']))])


def rows_of(obj):
    import pandas as pd
    if isinstance(obj, pd.Series):
        return [(t.to_pydatetime() if hasattr(t, 'to_pydatetime') else t, (v,)) for t, v in zip(obj.index, obj.values.tolist())]
    return [(t.to_pydatetime() if hasattr(t, 'to_pydatetime') else t, tuple(r)) for t, r in zip(obj.index, obj.values.tolist())]


def req(a, b):
    return len(a) == len(b) and all((isn(x) and isn(y)) or x == y for x, y in zip(a, b))


def inside(t, lb, ub, oc):
    ok = True
    if lb is not None:
        ok = ok and (t >= lb if oc[0] in '[cC' else t > lb)
    if ub is not None:
        ok = ok and (t <= ub if oc[1] in ']cC' else t < ub)
    return ok


def bound(b, grid):
    """bound term -> datetime: {'i': grid position, 'off': fraction}"""
    if b is None:
        return None
    step = datetime.timedelta(days=1) if grid == 'd' else datetime.timedelta(hours=1)
    return tstamp(b['i'], grid) + step * b.get('off', 0)


def flavour(t, how):
    """the same instant as the caller may hold it: datetime (default), pandas Timestamp, numpy datetime64, ISO text, date (midnight only)"""
    import pandas as pd
    if t is None or not how:
        return t
    if how == 'Timestamp':
        return pd.Timestamp(t)
    if how == 'dt64':
        return np.datetime64(t)
    if how == 'str':
        return t.isoformat()
    if how == 'date' and t == datetime.datetime(t.year, t.month, t.day):
        return t.date()
    return t


def run_slice(case, ctx):
    import pandas as pd
    from pyg_base import df_slice
    grid = case['grid']
    x = mk_ts(case['x'], grid)
    if case.get('tz'):
        x = x.tz_localize(case['tz'])          # the rows' own (local) time of day is what a time-of-day bound is compared with
    before = rows_of(x)
    oc = case['oc']
    if case.get('tod'):
        mk = lambda b: None if b is None else (bound(b, grid) if isinstance(b, dict) else datetime.time(*b))
        lb, ub = mk(case['lb']), mk(case['ub'])
        args = (x, lb, ub, oc) if oc else (x, lb, ub)
        if case.get('tuple_form') and lb is not None and ub is not None:
            args = (x, (lb, ub), None, oc) if oc else (x, (lb, ub))       # the two bounds given as one pair
        eff = oc or '(]'
        st, res = ctx.call(df_slice, *args)
        if isinstance(lb, datetime.datetime) or isinstance(ub, datetime.datetime):
            # one bound a date, the other a time of day: each applies in its own terms
            keep = [(t, r) for t, r in before if (inside(t, lb, None, eff) if isinstance(lb, datetime.datetime) else inside(t.time(), lb, None, eff)) and
                    (inside(t, None, ub, eff) if isinstance(ub, datetime.datetime) else inside(t.time(), None, ub, eff))]
            ctx.cls('tod:mixed_with_date_bound')
        elif lb is not None and ub is not None and lb > ub:
            keep = [(t, r) for t, r in before if inside(t.time(), lb, None, eff) or inside(t.time(), None, ub, eff)]
            ctx.cls('tod:wraps_midnight')
        else:
            keep = [(t, r) for t, r in before if inside(t.time(), lb, ub, eff)]
        mon = 'time_of_day_model'
        what = 'df_slice(ts, %s, %s, %r) by time of day' % (lb, ub, oc)
    else:
        lb, ub = bound(case['lb'], grid), bound(case['ub'], grid)
        eff = oc or '(]'
        lb_arg, ub_arg = flavour(lb, case.get('lbf')), flavour(ub, case.get('ubf'))
        if case.get('xtz'):
            # a tz-aware index, the bounds the same instants quoted in ANOTHER zone: the rows kept are those of the naive twin
            z1, z2 = case['xtz']
            x = x.tz_localize(z1)
            conv = lambda b: None if b is None else pd.Timestamp(b).tz_localize(z1).tz_convert(z2)
            lb_arg, ub_arg = conv(lb), conv(ub)
            if case.get('lbf') == 'pydt':
                lb_arg, ub_arg = (None if lb_arg is None else lb_arg.to_pydatetime()), (None if ub_arg is None else ub_arg.to_pydatetime())
            ctx.cls('aware_index_bounds_in_another_zone')
        if case.get('tuple_form') and lb is not None and ub is not None:
            st, res = ctx.call(df_slice, x, (lb_arg, ub_arg), None, eff)
        else:
            st, res = ctx.call(df_slice, x, lb_arg, ub_arg, oc) if oc else ctx.call(df_slice, x, lb_arg, ub_arg)
        if case.get('lbf') or case.get('ubf'):
            ctx.cls('bound_flavours:%s/%s' % (case.get('lbf'), case.get('ubf')))
        keep = [(t, r) for t, r in before if inside(t, lb, ub, eff)]
        mon = 'slice_rows_model'
        what = 'df_slice(ts, %s, %s, %r)' % (lb, ub, oc)
    ok = st == 'ok' and type(res) is type(x)
    if ok:
        got = rows_of(res)
        if case.get('xtz') and not case.get('tod'):
            got = [(t.replace(tzinfo=None) if t.utcoffset() == pd.Timestamp(t.replace(tzinfo=None)).tz_localize(case['xtz'][0]).utcoffset() else 'moved', r) for t, r in got]      # back to the wall clock of the index's own zone
        ok = len(got) == len(keep) and all(a[0] == b[0] and req(a[1], b[1]) for a, b in zip(got, keep))
        if ok and isinstance(x, pd.DataFrame):
            ok = list(res.columns) == list(x.columns)
    if case.get('xtz') and not case.get('tod'):
        before_cmp = [(t.replace(tzinfo=None), r) for t, r in rows_of(x)]
    else:
        before_cmp = rows_of(x)
    ctx.check(mon, ok, lambda: '%s on index %s = %s %s ; model keeps %s' % (what, [t.strftime('%d %H:%M') for t, _ in before], st, [t.strftime('%d %H:%M') for t, _ in rows_of(res)] if st == 'ok' and hasattr(res, 'index') else res, [t.strftime('%d %H:%M') for t, _ in keep]))
    ctx.check('input_unmodified', len(before_cmp) == len(before) and all(a[0] == b[0] and req(a[1], b[1]) for a, b in zip(before_cmp, before)), lambda: 'input modified')
    on_point = False
    idxset = {t for t, _ in before}
    if case.get('tod'):
        tset = {t.time() for t in idxset}
        on_point = (lb in tset) or (ub in tset) or (lb in idxset) or (ub in idxset)
    else:
        on_point = (lb in idxset) or (ub in idxset)
    if on_point:
        ctx.mark_nontrivial(case)
        ctx.cls('bound_on_index_point')
    ctx.cls('brackets:%s' % (oc or 'default'))


def model_stitch(series_rows, ubs, n, oc='(]', lbs=None):
    """series_rows: list of [(t, v)] ; returns mapping t -> tuple(row) and the multiplicity of each timestamp.
    lbs given: series i owns (lbs[i], ubs[i]] (ubs[i] None = unbounded); otherwise (ubs[i-1], ubs[i]]"""
    k = len(series_rows)
    out, count = {}, {}
    for i in range(k):
        lb = lbs[i] if lbs is not None else (ubs[i - 1] if i > 0 else None)
        ub = ubs[i]
        members = series_rows[i:i + n]
        width = len(members)
        ts = sorted({t for m in members for t, _ in m if inside(t, lb, ub, oc)})
        for t in ts:
            row = []
            for m in members:
                d = dict(m)
                row.append(d.get(t, NAN))
            row = row + [NAN] * (n - width)
            out[t] = tuple(row)
            count[t] = count.get(t, 0) + 1
    return out, count


def run_stitch(case, ctx):
    import pandas as pd
    from pyg_base import df_slice, df_unslice
    grid = case['grid']
    specs = case['series']
    k = len(specs)
    live = [mk_ts(s, grid) for s in specs]
    srows = [[(t, r[0]) for t, r in rows_of(o)] for o in live]
    ubs = [bound(b, grid) for b in case['ubs']]
    if case.get('far_last'):
        ubs[-1] = datetime.datetime(3000, 1, 1) if case['far_last'] == 'y3000' else datetime.datetime.max.replace(microsecond=0)     # 'never expires' written as a far-away date
        ctx.cls('stitch:last_bound_far_away')
    n = case['n']
    rev = case.get('decreasing')
    arg_series = live[::-1] if rev else live
    arg_ubs = ubs[::-1] if rev else ubs
    ser_list, ub_list = list(arg_series), list(arg_ubs)
    if case.get('bounds_as') in ('lb', 'both'):
        return run_stitch_lb(case, ctx, live, srows, ubs, n, rev)
    st, res = ctx.call(df_slice, ser_list, None, ub_list, '(]', n) if case.get('explicit_oc') else ctx.call(df_slice, ser_list, ub=ub_list, n=n)
    unch = ub_list == list(arg_ubs) and len(ser_list) == len(arg_series) and all(a is b for a, b in zip(ser_list, arg_series))
    ctx.check('input_unmodified', unch, lambda: 'df_slice edited the caller\'s bound list / series list in place: %s -> %s' % (arg_ubs, ub_list))
    if st == 'ok' and unch:
        st_b, res_b = ctx.call(df_slice, ser_list, None, ub_list, '(]', n) if case.get('explicit_oc') else ctx.call(df_slice, ser_list, ub=ub_list, n=n)
        same2 = st_b == 'ok' and type(res_b) is type(res) and len(rows_of(res_b)) == len(rows_of(res)) and all(x[0] == y[0] and req(x[1], y[1]) for x, y in zip(rows_of(res_b), rows_of(res)))
        ctx.check('stitch_model', same2, lambda: 'the same call with the same list objects gives a different stitch the second time')
    exp, cnt = model_stitch(srows, ubs, n)
    what = 'df_slice(%d series, ub=%s%s, n=%d)' % (k, [u.strftime('%d %H') for u in ubs], ' (given in decreasing order)' if rev else '', n)
    if st != 'ok':
        ctx.ev('stitch_model'); ctx.fail('stitch_model', '%s raised %s' % (what, core.exc_str(res)))
        return
    if not isinstance(res, (pd.Series, pd.DataFrame)):
        ctx.ev('stitch_model'); ctx.fail('stitch_model', '%s returned %r' % (what, type(res)))
        return
    got = rows_of(res)
    seen = {}
    for t, r in got:
        seen[t] = seen.get(t, 0) + 1
    ctx.check('each_timestamp_at_most_once', all(c == 1 for c in seen.values()), lambda: '%s lists a timestamp more than once: %s' % (what, [t.strftime('%d %H') for t, c in seen.items() if c > 1][:5]))
    gm = {}
    for t, r in got:
        gm.setdefault(t, r)
    width = n if n > 1 else 1
    ok = set(gm) == set(exp) and all(req(list(gm[t]) + [NAN] * (width - len(gm[t])), list(exp[t])[:max(width, len(gm[t]))]) for t in exp)
    ctx.check('stitch_model', ok, lambda: '%s = %s\nmodel (timestamp in (ub[i-1], ub[i]] takes series i, column j series i+j): %s\nmember indices %s' % (
        what, [(t.strftime('%d %H'), r) for t, r in got][:12], [(t.strftime('%d %H'), r) for t, r in sorted(exp.items())][:12], [[t.strftime('%d %H') for t, _ in s] for s in srows]))
    if ok and case.get('unslice') and all(c == 1 for c in seen.values()):
        stu, un = ctx.call(df_unslice, res, list(ubs))
        if stu != 'ok':
            ctx.ev('unslice_roundtrip'); ctx.fail('unslice_roundtrip', 'df_unslice(stitched n=%d, ub) raised %s' % (n, core.exc_str(un)))
        else:
            ctx.check('unslice_roundtrip', [u for u in un] == list(ubs), lambda: 'df_unslice returned series for bounds %s, the bounds given were %s' % ([str(u) for u in un], [str(u) for u in ubs]))
            pieces = [un[u] for u in un]
            st2, again = ctx.call(df_slice, list(pieces), ub=[u for u in un], n=n) if len(pieces) > 1 else ('ok', None)
            if len(pieces) > 1:
                mech = None
                ok2 = st2 == 'ok' and isinstance(again, (pd.Series, pd.DataFrame))
                if ok2:
                    am = {}
                    for t, r in rows_of(again):
                        am.setdefault(t, r)
                    w2 = max([len(r) for r in list(am.values()) + list(gm.values())] + [1])
                    pad = lambda r: list(r) + [NAN] * (w2 - len(r))
                    ok2 = set(am) == set(gm) and all(req(pad(am[t]), pad(gm[t])) for t in gm)
                    # known finding: rows of the frame that are NaN in every column cannot be told from 'no data' and are lost
                    if not ok2 and set(am) <= set(gm) and all(req(pad(am[t]), pad(gm[t])) for t in am) and all(all(isn(v) for v in gm[t]) for t in set(gm) - set(am)):
                        mech = 'unslice-restitch-loses-rows-that-are-NaN-in-every-column'
                ctx.check('unslice_roundtrip', ok2, lambda: 're-stitching df_unslice(S, ub) with n=%d does not reproduce S: %s vs %s' % (n, rows_of(again)[:8] if st2 == 'ok' and again is not None else again, got[:8]), mech)
    allpts = {t for s in srows for t, _ in s}
    if any(u in allpts for u in ubs):
        ctx.mark_nontrivial(case)
        ctx.cls('bound_on_index_point')
    ctx.cls('stitch:n=%d' % n)
    if any(len(s) == 0 for s in srows):
        ctx.cls('stitch:empty_member')


def run_stitch_lb(case, ctx, live, srows, pts, n, rev):
    """the same stitch spelt with a list of LOWER bounds (series i owns (lb[i], lb[i+1]], the last one everything after) or with
    both lists (series i owns (lb[i], ub[i]]); in decreasing order the lists and the series are all given reversed"""
    import pandas as pd
    from pyg_base import df_slice
    k = len(live)
    if case['bounds_as'] == 'lb':
        lbs = list(pts)
        ubs = lbs[1:] + [None]
        l_arg, u_arg = (lbs[::-1] if rev else list(lbs)), None
    else:
        ubs = list(pts)
        gaps = case.get('gaps') or [0] * k
        step = datetime.timedelta(days=1) if case['grid'] == 'd' else datetime.timedelta(hours=1)
        lbs = [min(ubs[0], pts[0] - step * gaps[0])] + [min(ubs[i], ubs[i - 1] + step * gaps[i]) for i in range(1, k)]
        if any(a >= b for a, b in zip(lbs, lbs[1:])):
            rev = False          # a list with two equal bounds has no direction of its own: given in increasing order only
        l_arg, u_arg = (lbs[::-1], ubs[::-1]) if rev else (list(lbs), list(ubs))
    s_arg = live[::-1] if rev else list(live)
    keep_l, keep_u, keep_s = list(l_arg), (None if u_arg is None else list(u_arg)), list(s_arg)
    st, res = ctx.call(df_slice, s_arg, l_arg, u_arg, '(]', n) if case.get('explicit_oc') else ctx.call(df_slice, s_arg, lb=l_arg, ub=u_arg, n=n)
    ctx.check('input_unmodified', l_arg == keep_l and u_arg == keep_u and len(s_arg) == len(keep_s) and all(a is b for a, b in zip(s_arg, keep_s)),
              lambda: 'df_slice edited the caller\'s bound lists / series list in place')
    exp, cnt = model_stitch(srows, ubs, n, lbs=lbs)
    what = 'df_slice(%d series, lb=%s, ub=%s%s, n=%d)' % (k, [u.strftime('%d %H') for u in lbs], [u and u.strftime('%d %H') for u in ubs] if u_arg is not None else None, ' (given in decreasing order)' if rev else '', n)
    ctx.cls('stitch:bounds_as_%s%s' % (case['bounds_as'], '_decreasing' if rev else ''))
    if st != 'ok' or not isinstance(res, (pd.Series, pd.DataFrame)):
        ctx.ev('stitch_model'); ctx.fail('stitch_model', '%s gave %s %s' % (what, st, core.exc_str(res) if st != 'ok' else type(res)))
        return
    got = rows_of(res)
    seen = {}
    for t, r in got:
        seen[t] = seen.get(t, 0) + 1
    ctx.check('each_timestamp_at_most_once', all(c == 1 for c in seen.values()), lambda: '%s lists a timestamp more than once: %s' % (what, [t.strftime('%d %H') for t, c in seen.items() if c > 1][:5]))
    gm = {}
    for t, r in got:
        gm.setdefault(t, r)
    width = n if n > 1 else 1
    ok = set(gm) == set(exp) and all(req(list(gm[t]) + [NAN] * (width - len(gm[t])), list(exp[t])[:max(width, len(gm[t]))]) for t in exp)
    ctx.check('stitch_model', ok, lambda: '%s = %s\nmodel (series i owns (lb[i], ub[i]], column j from series i+j): %s\nmember indices %s' % (
        what, [(t.strftime('%d %H'), r) for t, r in got][:12], [(t.strftime('%d %H'), r) for t, r in sorted(exp.items())][:12], [[t.strftime('%d %H') for t, _ in s_] for s_ in srows]))
    allpts = {t for s_ in srows for t, _ in s_}
    if any(u in allpts for u in lbs + [u for u in ubs if u is not None]):
        ctx.mark_nontrivial(case)
        ctx.cls('bound_on_index_point')


def run_windows(case, ctx):
    """one series, a list of lower and a list of upper bounds (the docstring's 'single timeseries, multiple filtering'): the rows of
    window 0, then those of window 1, ... - each window the plain interval filter"""
    import pandas as pd
    from pyg_base import df_slice
    grid = case['grid']
    x = mk_ts(case['x'], grid)
    before = rows_of(x)
    lbs, ubs = [bound(b, grid) for b in case['lbs']], [bound(b, grid) for b in case['ubs']]
    oc = case['oc']
    eff = oc or '(]'
    l_arg, u_arg = list(lbs), list(ubs)
    st, res = ctx.call(df_slice, x, l_arg, u_arg, oc) if oc else ctx.call(df_slice, x, l_arg, u_arg)
    keep = [(t, r) for lb, ub in zip(lbs, ubs) for t, r in before if inside(t, lb, ub, eff)]
    ok = st == 'ok' and type(res) is type(x) and l_arg == lbs and u_arg == ubs
    if ok:
        got = rows_of(res)
        ok = len(got) == len(keep) and all(a[0] == b[0] and req(a[1], b[1]) for a, b in zip(got, keep))
    ctx.check('slice_rows_model', ok, lambda: 'df_slice(ts, lb=%s, ub=%s, %r) on index %s = %s %s ; model (window after window) keeps %s' % (
        [str(b) for b in lbs], [str(b) for b in ubs], oc, [t.strftime('%d %H:%M') for t, _ in before], st,
        [t.strftime('%d %H:%M') for t, _ in rows_of(res)] if st == 'ok' and hasattr(res, 'index') else res, [t.strftime('%d %H:%M') for t, _ in keep]))
    ctx.check('input_unmodified', len(rows_of(x)) == len(before) and all(a[0] == b[0] and req(a[1], b[1]) for a, b in zip(rows_of(x), before)), lambda: 'input modified')
    ctx.cls('slice:several_windows')
    idxset = {t for t, _ in before}
    if any(b in idxset for b in lbs + ubs):
        ctx.mark_nontrivial(case)
        ctx.cls('bound_on_index_point')


def run_case(case, ctx):
    # some series are dated in the future (forecasts, expiry schedules): a missing bound must stay unbounded there too
    BASE['now'] = datetime.datetime(2150, 6, 1) if case.get('future') else T0
    try:
        if case['kind'] == 'stitch':
            return run_stitch(case, ctx)
        if case['kind'] == 'windows':
            return run_windows(case, ctx)
        run_slice(case, ctx)
        if case.get('tod') and case.get('twin'):
            # a second series with the same length and the same first/last stamp but different interior stamps
            run_slice(dict(case, x=case['twin'], twin=None), ctx)
    finally:
        BASE['now'] = T0


# ------------------------------------------------------------------ generators
def gen_index(rng, grid, maxn=14):
    span = 20 if grid == 'd' else 60
    mode = rng.random()
    if mode < 0.08:
        return []
    if mode > 0.97 and grid == 'h':
        return sorted(rng.sample(range(span), rng.randint(40, span)))        # a few long series in every tier
    return sorted(rng.sample(range(span), rng.randint(1, maxn)))


def gen_bound(rng, ts, grid, span):
    r = rng.random()
    if r < 0.12:
        return None
    if ts and r < 0.65:
        return {'i': rng.choice(ts), 'off': 0}
    if r < 0.8:
        return {'i': rng.randrange(span), 'off': rng.choice([0.5, 0.25])}
    if r < 0.9:
        return {'i': -2, 'off': 0}
    return {'i': span + 2, 'off': 0}


def gen_case(rng):
    r = rng.random()
    ids = iter(range(1, 100000))
    if r < 0.5:
        grid = rng.choice(['d', 'd', 'h'])
        span = 20 if grid == 'd' else 60
        ts = gen_index(rng, grid)
        k = rng.choice([1, 1, 2, 3]) if rng.random() > 0.04 else 0       # 0: a frame with timestamps but no columns (a schedule)
        if ts and rng.random() < 0.15:
            ts = sorted(ts + [rng.choice(ts) for _ in range(rng.randint(1, 4))])        # repeated timestamps (several ticks on one stamp): rows are still rows
        spec = {'ts': ts, 'cols': [[float(next(ids)) if rng.random() > 0.1 else None for _ in ts] for _ in range(k)], 'frame': k != 1 or rng.random() < 0.2}
        lb, ub = gen_bound(rng, ts, grid, span), gen_bound(rng, ts, grid, span)
        if rng.random() < 0.12 and lb is not None:
            ub = dict(lb)    # degenerate window lb == ub
        case = {'kind': 'slice', 'grid': grid, 'x': spec, 'lb': lb, 'ub': ub, 'oc': rng.choice(['()', '(]', '[)', '[]', None, 'oc', 'cc']), 'tuple_form': rng.random() < 0.1, 'future': rng.random() < 0.25}
        if rng.random() < 0.08:
            spec['objidx'] = True
        if rng.random() < 0.3:
            case['lbf'] = rng.choice([None, 'Timestamp', 'dt64', 'str', 'date'])
            case['ubf'] = rng.choice([None, 'Timestamp', 'dt64', 'str', 'date'])
        elif rng.random() < 0.15 and not case['future'] and len(set(ts)) == len(ts):
            spec.pop('objidx', None)
            case['xtz'] = rng.choice([['America/New_York', 'UTC'], ['Europe/London', 'Asia/Tokyo'], ['UTC', 'America/New_York'], ['Asia/Tokyo', 'Europe/London']])
            case['lbf'] = rng.choice([None, 'pydt'])
            case['tuple_form'] = False
        return case
    if r < 0.7:
        ts = sorted(rng.sample(range(72), rng.randint(1, 30)))
        if rng.random() < 0.15:
            ts = sorted(ts + [rng.choice(ts) for _ in range(rng.randint(1, 5))])       # several ticks on one stamp: their order is part of 'rows otherwise untouched'
        spec = {'ts': ts, 'cols': [[float(next(ids)) for _ in ts]], 'frame': rng.random() < 0.3}
        sub = rng.random() < 0.5
        if sub:
            spec['us'] = [rng.choice([0, 0, 250000, 500000, 999999]) for _ in ts]
            order = sorted(range(len(ts)), key=lambda i_: (ts[i_], spec['us'][i_]))           # the index stays chronological when stamps repeat within an hour
            spec['us'] = [spec['us'][i_] for i_ in order]
        hours = sorted({t % 24 for t in ts})
        def pick():
            if rng.random() < 0.15:
                return None
            if rng.random() < 0.7:
                h = rng.choice(hours)
                return [h, 0, 0, rng.choice([0, 0, 250000, 500000])] if sub else [h, 0]
            return [rng.randrange(24), 30]
        case = {'kind': 'slice', 'grid': 'h', 'tod': True, 'x': spec, 'lb': pick(), 'ub': pick(), 'oc': rng.choice(['()', '(]', '[)', '[]', None]), 'tuple_form': rng.random() < 0.2}
        if rng.random() < 0.15:
            case['tz'] = rng.choice(['America/New_York', 'Asia/Tokyo', 'UTC', 'Europe/London'])
        elif rng.random() < 0.15:
            which = rng.choice(['lb', 'ub'])
            if case['ub' if which == 'lb' else 'lb'] is not None:
                case[which] = {'i': rng.choice(ts) if rng.random() < 0.6 else rng.randrange(72), 'off': 0}
        if len(ts) >= 3 and rng.random() < 0.5:
            inner = sorted(rng.sample(range(ts[0] + 1, ts[-1]), min(len(ts) - 2, ts[-1] - ts[0] - 1))) if ts[-1] - ts[0] - 1 >= len(ts) - 2 else None
            if inner is not None and [ts[0]] + inner + [ts[-1]] != ts:
                ts2 = [ts[0]] + inner + [ts[-1]]
                case['twin'] = {'ts': ts2, 'cols': [[float(next(ids)) for _ in ts2]], 'frame': spec['frame']}
        return case
    grid = rng.choice(['d', 'd', 'h'])
    span = 20 if grid == 'd' else 60
    k = rng.randint(2, 5)
    series = []
    for _ in range(k):
        ts = gen_index(rng, grid, 10)
        series.append({'ts': ts, 'cols': [[float(next(ids)) for _ in ts]]})
    if rng.random() < 0.2:
        for s_ in series:        # genuine NaN observations: rows of the stitched frame like any other
            s_['cols'] = [[None if rng.random() < 0.25 else v for v in s_['cols'][0]]]
    if rng.random() < 0.12:
        for s_ in series:        # infinite observations too ('inf' / '-inf' are read by float())
            s_['cols'] = [[rng.choice(['inf', '-inf']) if (v is not None and rng.random() < 0.25) else v for v in s_['cols'][0]]]
    allpts = sorted({t for s in series for t in s['ts']})
    cands = sorted(set(rng.sample(range(span), min(span, k + 3))) | set(rng.sample(allpts, min(len(allpts), k))))
    pts = sorted(rng.sample(cands, k))
    ubs = [{'i': p, 'off': 0 if rng.random() < 0.8 else 0.5} for p in pts]
    n = rng.randint(1, k)
    case = {'kind': 'stitch', 'grid': grid, 'series': series, 'ubs': ubs, 'n': n, 'decreasing': rng.random() < 0.3, 'explicit_oc': rng.random() < 0.3, 'unslice': rng.random() < 0.7}
    r2 = rng.random()
    if rng.random() < 0.12:
        case['far_last'] = rng.choice(['y3000', 'max'])
    if r2 < 0.12:
        case['bounds_as'] = 'lb'
    elif r2 < 0.24:
        case['bounds_as'] = 'both'
        case['gaps'] = [rng.choice([0, 0, 1, 2]) for _ in range(k)]
    elif r2 < 0.32:
        # one series cut by several windows (increasing, not overlapping)
        ts = gen_index(rng, grid)
        kk = rng.randint(2, 4)
        cuts = sorted(rng.sample(range(-1, span + 1), 2 * kk))
        if ts and rng.random() < 0.7:
            cuts = sorted(set(cuts[:-2]) | set(rng.sample(ts, min(2, len(ts)))))
            cuts = cuts[:2 * (len(cuts) // 2)]
        return {'kind': 'windows', 'grid': grid, 'x': {'ts': ts, 'cols': [[float(next(ids)) for _ in ts]], 'frame': rng.random() < 0.3},
                'lbs': [{'i': c, 'off': 0} for c in cuts[0::2]], 'ubs': [{'i': c, 'off': 0} for c in cuts[1::2]], 'oc': rng.choice(['()', '(]', '[)', '[]', None])}
    return case


def plan(tier, seed, n):
    per = 500 if tier == 'quick' else 25000
    return [{'n': per} for _ in range(n)]


def run(spec, ctx):
    for i in range(spec['n']):
        rng = random.Random('C13/%d/%d/%d' % (spec['seed'], spec['shard'], i))
        case = gen_case(rng)
        ctx.case(case)
        ctx.run_case(case, run_case)
        if ctx.full():
            break


def replay(case, ctx):
    ctx.case(case)
    ctx.run_case(case, run_case, shrink=False)
