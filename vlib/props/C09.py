"""C09 - dt_bump adds business days, calendar units and compound tenors exactly.

Monitor shape: independent stepping oracle (weekdays obtained by walking one day at a time; month arithmetic by explicit
carry; own tokenizer for compound tenors) + algebraic law monitors (weekday landing, monotone, composition, round trips)."""
import random, datetime, re, calendar
from .. import core
from ..core import HarnessError

ID = 'C09'
TITLE = 'dt_bump: business days, calendar units, compound tenors'
LEVEL = 'exploration'
TECHNIQUE = 'runtime monitoring: independent stepping oracle (weekdays by walking day by day, months by explicit carry, own tenor tokenizer) + algebraic law monitors'
LEVEL_TEXT = 'Thorough: every start day of 1900-2299 x every n in [-60,60] for b and m (exhaustive over that grid), q/y strided, sampled fixed units and compounds. A check says held on K observed executions, never verified.'
LEVEL_NOTE = 'Trusted: datetime arithmetic and calendar.monthrange; month-based units claimed at midnight only.'
RULE = ('a case is one start day pushed through every n in [-60,60] for unit b (and m; q,y strided) plus sampled fixed units, ints, timedeltas, intraday starts and '
        'random two/three-part compound tenors; quick: the days of 4 years + 600 random days; thorough: EVERY start day of 1900-01-01..2299-12-31 (exhaustive over days x n for b and m); '
        'non-trivial = start day on a weekend or month end (day>=29); distinct = distinct start day')
RULE_ALSO = ('; also per day: the parts of a compound as separate arguments (text, ints, timedeltas mixed), intraday compounds over d/b/w/h/n/s, business days from an intraday start for '
             'every (quick) or every third (thorough) n, and dt(bump) relative to today against the same oracle')
ASSUMPTIONS = ['month-based units are claimed at midnight only (they reset the time of day)', 'results must stay within datetime range; starts are >= 1905 and <= 2294 for |n|<=60 years',
               'named tenors (spot/on/tn/sn) are checked only through their definition as 0b..3b']
D0 = datetime.date(1900, 1, 1)
NDAYS = 146097
DAY = datetime.timedelta(1)
NS = list(range(-60, 61))


def required(tier):
    return {'b_stepping_oracle': 100000, 'b_lands_on_weekday': 100000, 'b_monotone_in_t': 50000, 'b_composition': 5000, 'b_roundtrip': 20000, 'mqy_carry_oracle': 50000,
            'mqy_roundtrip': 5000, 'fixed_units': 5000, 'compound_left_to_right': 1000, 'time_of_day_preserved': 2000, 'separate_arguments': 1000, 'intraday_compound': 1000, 'dt_relative_to_today': 500}


def exhaustive(tier):
    return tier == 'thorough'


def exhaustive_note(tier):
    return 'thorough: every start day of the 400-year cycle x every n in [-60,60] for units b and m' if tier == 'thorough' else 'quick samples start days'


def mbump(t, months):
    """explicit carry: keep the day of month when it exists, otherwise roll the excess days into the following month"""
    k = t.year * 12 + (t.month - 1) + months
    y, m = k // 12, k % 12 + 1
    dim = calendar.monthrange(y, m)[1]
    if t.day <= dim:
        return datetime.datetime(y, m, t.day)
    y2, m2 = (y, m + 1) if m < 12 else (y + 1, 1)
    return datetime.datetime(y2, m2, t.day - dim)


TOK = re.compile(r'([-+]?\d+)([dbwmqyhns])')


def bbump(t, n):
    """walk one day at a time"""
    while t.weekday() > 4:
        t = t + DAY
    step = DAY if n > 0 else -DAY
    k = abs(n)
    while k:
        t = t + step
        if t.weekday() <= 4:
            k -= 1
    return t


def oracle_tenor(t, tenor):
    pos = 0
    for mt in TOK.finditer(tenor.lower()):
        if mt.start() != pos:
            raise HarnessError('tenor %r' % tenor)
        pos = mt.end()
        n, u = int(mt.group(1)), mt.group(2)
        if u == 'd':
            t = t + DAY * n
        elif u == 'w':
            t = t + DAY * 7 * n
        elif u == 'h':
            t = t + datetime.timedelta(hours=n)
        elif u == 'n':
            t = t + datetime.timedelta(minutes=n)
        elif u == 's':
            t = t + datetime.timedelta(seconds=n)
        elif u == 'b':
            t = bbump(t, n)
        elif u == 'm':
            t = mbump(t, n)
        elif u == 'q':
            t = mbump(t, 3 * n)
        elif u == 'y':
            t = mbump(t, 12 * n)
    if pos != len(tenor):
        raise HarnessError('tenor %r' % tenor)
    return t


class Walk(object):
    """all weekdays of a window obtained by walking day by day; index lookups give the n-th weekday from any start"""

    def __init__(self, lo, hi):
        self.lo = lo
        self.wk = []
        self.idx = {}      # ordinal -> index of that weekday, or for weekend days index of the next Monday
        d = lo
        while d <= hi:
            if d.weekday() <= 4:
                self.idx[d.toordinal()] = len(self.wk)
                self.wk.append(d)
            d += DAY
        d = hi
        nxt = None
        while d >= lo:
            if d.weekday() <= 4:
                nxt = self.idx[d.toordinal()]
            elif nxt is not None:
                self.idx[d.toordinal()] = nxt
            d -= DAY

    def bump(self, day, n):
        return self.wk[self.idx[day.toordinal()] + n]


BSTR = {n: '%db' % n for n in NS}
MSTR = {n: '%dm' % n for n in NS}


def check_day(ctx, day, walk, rng, heavy, mq_all):
    from pyg_base import dt_bump
    t = datetime.datetime(day.year, day.month, day.day)
    wd = day.weekday()
    term = {'day': day.isoformat()}
    ctx.case(term, nontrivial=(wd > 4 or day.day >= 29), sample=False)
    if len(ctx.samples) < 2 and wd > 4:
        ctx.samples.append(term)
    mon = ctx.monitors
    nxt = dt_bump(t + DAY, '0b')  # for monotonicity: compare with the next day under the same n
    t1 = t + DAY
    prev = None
    for n in NS:
        got = dt_bump(t, BSTR[n])
        exp = walk.bump(day, n)
        mon['b_stepping_oracle'] += 1
        if got.date() != exp or got.time() != datetime.time(0):
            ctx.fail('b_stepping_oracle', "dt_bump(%s (%s), '%db') = %s, day-by-day walk gives %s" % (day, day.strftime('%a'), n, got, exp), case=dict(term, n=n, unit='b'))
            if ctx.full():
                return
        mon['b_lands_on_weekday'] += 1
        if got.weekday() > 4:
            ctx.fail('b_lands_on_weekday', "dt_bump(%s, '%db') = %s is a %s" % (day, n, got, got.strftime('%a')), case=dict(term, n=n, unit='b'))
        if prev is not None:
            mon['b_monotone_in_n'] += 1
            if not got > prev:
                ctx.fail('b_monotone_in_n', "'%db' from %s = %s not after '%db' = %s" % (n, day, got, n - 1, prev), case=dict(term, n=n, unit='b'))
        prev = got
        if heavy or n % 7 == 0:
            g1 = dt_bump(t1, BSTR[n])
            mon['b_monotone_in_t'] += 1
            if g1 < got:
                ctx.fail('b_monotone_in_t', "dt_bump(%s,'%db')=%s > dt_bump(next day,'%db')=%s" % (day, n, got, n, g1), case=dict(term, n=n, unit='b'))
        if wd <= 4:
            back = dt_bump(got, BSTR[-n])
            mon['b_roundtrip'] += 1
            if back != t:
                ctx.fail('b_roundtrip', "from weekday %s: +%db then %db returns %s" % (day, n, -n, back), case=dict(term, n=n, unit='b'))
    ctx.cls('b:wd%d' % wd)
    # same-sign composition from a weekday
    if wd <= 4:
        for _ in range(6 if heavy else 3):
            sgn = rng.choice([1, -1])
            a, b = rng.randint(0, 30), rng.randint(0, 30)
            one = dt_bump(t, BSTR[sgn * (a + b)])
            two = dt_bump(dt_bump(t, BSTR[sgn * a]), BSTR[sgn * b])
            three = dt_bump(t, '%db%db' % (sgn * a, sgn * b))
            mon['b_composition'] += 1
            if not (one == two == three):
                ctx.fail('b_composition', "from %s: '%db' then '%db' = %s / compound %s, '%db' = %s" % (day, sgn * a, sgn * b, two, three, sgn * (a + b), one), case=dict(term, a=sgn * a, b=sgn * b, unit='bb'))
    # month / quarter / year
    ns_m = NS if mq_all else [n for n in NS if n % 5 == 0 or abs(n) <= 13]
    for n in ns_m:
        for unit, mult in (('m', 1), ('q', 3), ('y', 12)):
            if unit != 'm' and not (n % 7 == 0 or abs(n) <= 4):
                continue
            if unit == 'y' and not (1 <= day.year + n <= 9990):
                continue
            k = (day.year * 12 + day.month - 1 + mult * n) // 12
            if not (2 <= k <= 9990):
                continue
            got = dt_bump(t, '%d%s' % (n, unit))
            exp = mbump(t, mult * n)
            mon['mqy_carry_oracle'] += 1
            if got != exp:
                ctx.fail('mqy_carry_oracle', "dt_bump(%s, '%d%s') = %s, explicit carry gives %s" % (day, n, unit, got, exp), case=dict(term, n=n, unit=unit))
            if day.day <= 28:
                back = dt_bump(got, '%d%s' % (-n, unit))
                mon['mqy_roundtrip'] += 1
                if back != t:
                    ctx.fail('mqy_roundtrip', "from %s: %d%s then %d%s returns %s" % (day, n, unit, -n, unit, back), case=dict(term, n=n, unit=unit))
    if day.day >= 29:
        ctx.cls('month_end_start')
    # fixed units, ints, timedeltas, intraday, compound
    tod = datetime.timedelta(hours=rng.randrange(24), minutes=rng.randrange(60), seconds=rng.randrange(60), microseconds=rng.choice([0, 1, 999999]))
    T = t + tod
    for _ in range(4 if heavy else 2):
        n = rng.randint(-60, 60)
        for unit, delta in (('d', DAY * n), ('w', DAY * 7 * n), ('h', datetime.timedelta(hours=n)), ('n', datetime.timedelta(minutes=n)), ('s', datetime.timedelta(seconds=n))):
            got = dt_bump(T, '%d%s' % (n, unit))
            mon['fixed_units'] += 1
            if got != T + delta:
                ctx.fail('fixed_units', "dt_bump(%s, '%d%s') = %s expected %s" % (T, n, unit, got, T + delta), case=dict(term, n=n, unit=unit, tod=tod.total_seconds()))
            back = dt_bump(got, '%d%s' % (-n, unit))
            mon['fixed_roundtrip'] += 1
            if back != T:
                ctx.fail('fixed_roundtrip', "%d%s then %d%s from %s returns %s" % (n, unit, -n, unit, T, back), case=dict(term, n=n, unit=unit))
        import numpy as np
        for npn in (np.int64(n), np.int32(n)):
            mon['fixed_units'] += 1
            st_, g_ = ctx.call(dt_bump, T, npn)
            if st_ != 'ok' or g_ != T + DAY * n:
                ctx.fail('fixed_units', 'dt_bump(%s, %r) = %s %r' % (T, npn, st_, g_), case=dict(term, n=n, unit=type(npn).__name__))
        mon['fixed_units'] += 2
        if dt_bump(T, n) != T + DAY * n:
            ctx.fail('fixed_units', 'dt_bump(%s, %d) = %s' % (T, n, dt_bump(T, n)), case=dict(term, n=n, unit='int'))
        td = datetime.timedelta(days=n, seconds=rng.randrange(86400))
        if dt_bump(T, td) != T + td:
            ctx.fail('fixed_units', 'dt_bump(%s, %r) = %s' % (T, td, dt_bump(T, td)), case=dict(term, unit='timedelta'))
        gb = dt_bump(T, BSTR[n])
        mon['time_of_day_preserved'] += 1
        eb = walk.bump(day, n)
        if gb != datetime.datetime(eb.year, eb.month, eb.day) + tod:
            ctx.fail('time_of_day_preserved', "dt_bump(%s, '%db') = %s, expected %s + time of day" % (T, n, gb, eb), case=dict(term, n=n, unit='b', tod=tod.total_seconds()))
    for _ in range(6 if heavy else 2):
        parts = []
        for _ in range(rng.choice([2, 2, 3])):
            parts.append('%d%s' % (rng.randint(-12, 12), rng.choice('dbwmqyhns' if rng.random() < 0.3 else 'dbwmqy')))
        tenor = ''.join(parts)
        if rng.random() < 0.3:
            tenor = tenor.upper()
        try:
            exp = oracle_tenor(t, tenor)
        except (ValueError, OverflowError):
            continue
        st, got = ctx.call(dt_bump, t, tenor)
        mon['compound_left_to_right'] += 1
        if st != 'ok' or got != exp:
            ctx.fail('compound_left_to_right', "dt_bump(%s, %r) = %s, left-to-right oracle gives %s" % (t, tenor, got, exp), case=dict(term, tenor=tenor))
        seq = t
        for p in parts:
            seq = dt_bump(seq, p)
        if seq != exp:
            ctx.fail('compound_left_to_right', "sequential application of %s from %s = %s, oracle %s" % (parts, t, seq, exp), case=dict(term, tenor=tenor))
    from pyg_base import dt
    for tenor_ in ('%db' % rng.randint(-60, 60), '%dm' % rng.randint(-24, 24), '1y-3m2d', rng.randint(-60, 60)):
        mon['dt_with_bump'] += 1
        a_, b_ = dt(t, tenor_), dt_bump(t, tenor_)
        if a_ != b_:
            ctx.fail('dt_with_bump', 'dt(%s, %r) = %s but dt_bump gives %s' % (t, tenor_, a_, b_), case=dict(term, tenor=str(tenor_)))
    # the start as a caller may hold it: a date, a pandas Timestamp, a numpy datetime64, ISO text - the same instant, the same bump
    import pandas as pd
    import numpy as np
    for tenor_ in ('%db' % rng.randint(-30, 30), '%dm' % rng.randint(-14, 14), '-1w', '1y-3m2d', rng.randint(-9, 9)):
        ref_ = dt_bump(t, tenor_)
        for fl_, tv_ in (('date', day), ('Timestamp', pd.Timestamp(t)), ('datetime64', np.datetime64(t)), ('text', t.isoformat())):
            mon['start_flavours'] += 1
            st_, g_ = ctx.call(dt_bump, tv_, tenor_)
            if st_ != 'ok' or g_ != ref_:
                ctx.fail('start_flavours', 'dt_bump(%s as %s, %r) = %s %r but from the datetime it is %s' % (t, fl_, tenor_, st_, g_, ref_), case=dict(term, tenor=str(tenor_), flavour=fl_))
    # ... and an intraday start with its microseconds in those flavours, under the fixed-length and business-day units
    for tenor_ in ('%dh' % rng.randint(-30, 30), '%db' % rng.randint(-9, 9), '%dd%ds' % (rng.randint(-9, 9), rng.randint(-50, 50)), rng.randint(-9, 9)):
        ref_ = dt_bump(T, tenor_)
        for fl_, tv_ in (('Timestamp', pd.Timestamp(T)), ('datetime64', np.datetime64(T)), ('text', T.isoformat()), ('text with a space', T.isoformat(' '))):
            mon['start_flavours'] += 1
            st_, g_ = ctx.call(dt_bump, tv_, tenor_)
            if st_ != 'ok' or g_ != ref_:
                ctx.fail('start_flavours', 'dt_bump(%s as %s, %r) = %s %r but from the datetime it is %s' % (T, fl_, tenor_, st_, g_, ref_), case=dict(term, tenor=str(tenor_), flavour=fl_, tod=tod.total_seconds()))
    # monotone in t also between an intraday start and the following midnight
    for n_ in (0, 1, -1, 3):
        a_, b_ = t + datetime.timedelta(hours=23), t + DAY
        mon['b_monotone_in_t'] += 1
        ra_, rb_ = dt_bump(a_, BSTR[n_]), dt_bump(b_, BSTR[n_])
        if ra_ > rb_:
            # known finding: a weekend start keeps its time of day when it is rolled to Monday, so Sunday 23:00 lands after Monday 00:00
            mech_ = 'nb-not-monotone-between-an-intraday-weekend-start-and-the-following-midnight' if a_.weekday() > 4 else None
            ctx.fail('b_monotone_in_t', "dt_bump(%s, '%db') = %s is later than dt_bump(%s, '%db') = %s" % (a_, n_, ra_, b_, n_, rb_), mech=mech_, case=dict(term, n=n_, unit='b', hour=23))
    # numpy's timedelta adds exactly that much time, like datetime's
    for amount_, unit_ in ((36, 'h'), (-90, 'm'), (45, 's'), (3, 'D')):
        mon['fixed_units'] += 1
        td_ = np.timedelta64(amount_, unit_)
        st_, g_ = ctx.call(dt_bump, t, td_)
        ref_ = t + datetime.timedelta(**{{'h': 'hours', 'm': 'minutes', 's': 'seconds', 'D': 'days'}[unit_]: amount_})
        if st_ != 'ok' or g_ != ref_:
            ctx.fail('fixed_units', 'dt_bump(%s, %r) = %s %r, expected %s' % (t, td_, st_, g_, ref_), case=dict(term, tenor=str(td_)))
    # a zero business-day bump written with a minus sign is still a zero bump: a weekend start rolls forward to Monday
    for tenor_, same_ in (('-0b', '0b'), ('-0b-1b', '-1b'), ('+0b', '0b'), ('-0b2b', '2b')):
        mon['b_stepping_oracle'] += 1
        st_, g_ = ctx.call(dt_bump, t, tenor_)
        ref_ = dt_bump(t, same_)
        if st_ != 'ok' or g_ != ref_:
            ctx.fail('b_stepping_oracle', 'dt_bump(%s (%s), %r) = %s %r but %r gives %s' % (t, t.strftime('%a'), tenor_, st_, g_, same_, ref_), case=dict(term, tenor=tenor_))
    # a tenor given as one list object, used again for the next date: the caller's list is untouched and means the same
    lst_ = ['1y', '-3m', '2d'] if day.day % 2 else ['2b']
    keep_ = list(lst_)
    r1_ = ctx.call(dt_bump, t, lst_)
    r2_ = ctx.call(dt_bump, t, lst_)
    mon['compound_left_to_right'] += 1
    ref_ = dt_bump(t, ''.join(keep_))
    if lst_ != keep_ or r1_[0] != 'ok' or r2_[0] != 'ok' or r1_[1] != ref_ or r2_[1] != ref_:
        ctx.fail('compound_left_to_right', 'dt_bump(%s, %r) twice with the same list object: %r then %r (list now %r); the string spelling gives %s' % (t, keep_, r1_[1], r2_[1], lst_, ref_), case=dict(term, tenor=str(keep_)))
    # an explicit '+' is the same bump as no sign
    for tenor_ in ('+%dd' % rng.randint(1, 40), '+%db' % rng.randint(1, 30), '+%dm' % rng.randint(1, 14), '1y+3m', '-3m+2d', '+1w-2d', '+2h'):
        mon['explicit_plus_sign'] += 1
        st_, g_ = ctx.call(dt_bump, t, tenor_)
        ref_ = dt_bump(t, tenor_.replace('+', ''))
        if st_ != 'ok' or g_ != ref_:
            ctx.fail('explicit_plus_sign', 'dt_bump(%s, %r) = %s %r but %r gives %s' % (t, tenor_, st_, g_, tenor_.replace('+', ''), ref_), case=dict(term, tenor=tenor_))
    # the parts of a compound handed over as separate arguments (dt_bump(t, *bumps)), text mixed with ints and timedeltas
    for _ in range(3 if heavy else 1):
        parts_, exp_ = [], t
        try:
            for _k in range(rng.choice([2, 3, 4])):
                kind_ = rng.choice(['str', 'str', 'int', 'td', 'two'])
                if kind_ == 'int':
                    v_ = rng.randint(-40, 40); exp_ = exp_ + DAY * v_
                elif kind_ == 'td':
                    v_ = datetime.timedelta(days=rng.randint(-9, 9), hours=rng.randrange(24)); exp_ = exp_ + v_
                elif kind_ == 'two':
                    v_ = '%d%s%d%s' % (rng.randint(-12, 12), rng.choice('dbw'), rng.randint(-12, 12), rng.choice('dbwhns')); exp_ = oracle_tenor(exp_, v_)
                else:
                    # month-based parts only while the running value is still at midnight (claimed at midnight only)
                    units_ = 'dbwmqy' if exp_.time() == datetime.time(0) else 'dbwhns'
                    v_ = '%d%s' % (rng.randint(-12, 12), rng.choice(units_)); exp_ = oracle_tenor(exp_, v_)
                parts_.append(v_)
        except (ValueError, OverflowError):
            continue
        keep_ = list(parts_)
        mon['separate_arguments'] += 1
        st_, g_ = ctx.call(dt_bump, t, *parts_)
        if st_ != 'ok' or g_ != exp_ or parts_ != keep_:
            ctx.fail('separate_arguments', 'dt_bump(%s, *%r) = %s %r, applying the parts left to right gives %s' % (t, keep_, st_, g_, exp_), case=dict(term, tenor=repr(keep_)))
    # intraday starts: compounds over the fixed-length and business-day units keep the time of day through every part
    for _ in range(4 if heavy else 1):
        tenor_ = ''.join('%d%s' % (rng.randint(-30, 30), rng.choice('dbwhnsbb')) for _k in range(rng.choice([2, 3])))
        exp_ = oracle_tenor(T, tenor_)
        mon['intraday_compound'] += 1
        st_, g_ = ctx.call(dt_bump, T, tenor_)
        if st_ != 'ok' or g_ != exp_:
            ctx.fail('intraday_compound', 'dt_bump(%s (%s), %r) = %s %r, left-to-right oracle gives %s' % (T, T.strftime('%a'), tenor_, st_, g_, exp_), case=dict(term, tenor=tenor_, tod=tod.total_seconds()))
    # business days from an intraday start, every 3rd n (all n in the quick tier): the day of the walk plus the time of day
    for n in NS:
        if not (heavy or n % 3 == 0):
            continue
        gb = dt_bump(T, BSTR[n])
        mon['time_of_day_preserved'] += 1
        eb = walk.bump(day, n)
        if gb != datetime.datetime(eb.year, eb.month, eb.day) + tod:
            ctx.fail('time_of_day_preserved', "dt_bump(%s (%s), '%db') = %s, expected %s + time of day" % (T, T.strftime('%a'), n, gb, eb), case=dict(term, n=n, unit='b', tod=tod.total_seconds()))
            break
    # dt(bump) is the bump from today's midnight (the clock is read around the call: either side of a day change is accepted)
    if day.day % 9 == 0 or heavy:
        for tenor_ in ('%db' % rng.randint(-60, 60), '%dm' % rng.randint(-24, 24), '1y-3m2d', '-%dw' % rng.randint(1, 9), '%dq' % rng.randint(-8, 8)):
            mon['dt_relative_to_today'] += 1
            d0_ = datetime.date.today()
            st_, g_ = ctx.call(dt, tenor_)
            d1_ = datetime.date.today()
            refs_ = [oracle_tenor(datetime.datetime(d_.year, d_.month, d_.day), tenor_) for d_ in (d0_, d1_)]
            if st_ != 'ok' or g_ not in refs_:
                ctx.fail('dt_relative_to_today', 'dt(%r) = %s %r on %s; the bump from that midnight is %s' % (tenor_, st_, g_, d0_, refs_[0]), case=dict(term, tenor=tenor_))
    named = {'spot': 0, 'on': 1, 'o/n': 1, 'tn': 2, 't/n': 2, 'sn': 3, 's/n': 3}
    k = rng.choice(list(named))
    mon['named_tenors'] += 1
    if dt_bump(t, k) != datetime.datetime.combine(walk.bump(day, named[k]), datetime.time(0)):
        ctx.fail('named_tenors', 'dt_bump(%s, %r) = %s' % (day, k, dt_bump(t, k)), case=dict(term, tenor=k))


def quick_days(seed):
    days = []
    for yr in (1999, 2000, 2023, 2100):
        d = datetime.date(yr, 1, 1)
        while d.year == yr:
            days.append(d); d += DAY
    rng = random.Random('C09q/%d' % seed)
    lo = (datetime.date(1905, 1, 1) - D0).days
    hi = (datetime.date(2294, 12, 31) - D0).days
    for _ in range(600):
        days.append(D0 + datetime.timedelta(rng.randrange(lo, hi)))
    return sorted(set(days))


def plan(tier, seed, n):
    if tier == 'quick':
        k = len(quick_days(seed))
        return [{'mode': 'quick', 'lo': i * k // n, 'hi': (i + 1) * k // n} for i in range(n)]
    return [{'mode': 'all', 'lo': i * NDAYS // n, 'hi': (i + 1) * NDAYS // n} for i in range(n)]


def run(spec, ctx):
    rng = random.Random('C09/%d/%d' % (spec['seed'], spec['shard']))
    if spec['mode'] == 'quick':
        days = quick_days(spec['seed'])[spec['lo']:spec['hi']]
    else:
        days = [D0 + datetime.timedelta(i) for i in range(spec['lo'], spec['hi'])]
    if not days:
        return
    walk = Walk(min(days) - DAY * 100, max(days) + DAY * 100)
    seen = set()
    for day in days:
        check_day(ctx, day, walk, rng, heavy=(spec['mode'] == 'quick'), mq_all=True)
        seen.add(day.weekday())
        if ctx.full():
            return
    ctx.extra['weekdays_seen'] = len(seen)


def replay(case, ctx):
    day = datetime.date.fromisoformat(case['day'])
    walk = Walk(day - DAY * 100, day + DAY * 100)
    check_day(ctx, day, walk, random.Random(0), heavy=True, mq_all=True)
