"""C12 - df_fillna / nona fill or drop exactly the missing cells, arrays and pandas alike.

Monitor shape: pure-Python reference on lists (non-NaN cells carry unique ids so *which* observation filled a gap is checked);
the workload enumerates every NaN mask of short vectors (thorough: all 2^n masks for n<=10, exhaustive for that sub-domain)."""
import random, itertools, datetime, math
import numpy as np
from .. import core, codec
from ..core import HarnessError

ID = 'C12'
TITLE = 'df_fillna / nona fill or drop exactly the missing cells'
LEVEL = 'exploration'
TECHNIQUE = 'runtime monitoring: pure-Python fill/drop reference on lists with unique ids; exhaustive NaN masks of short vectors'
LEVEL_TEXT = 'Thorough: all 2^n masks for n<=10 x every single method x limit in {None,1,2,3} (exhaustive for that sub-domain) plus random vectors/frames and method lists. A check says held on K observed executions, never verified.'
LEVEL_NOTE = 'Trusted: the list model; numeric constants with limit=None only; axis not varied.'
RULE = ('a case = (NaN mask, container kind in {Series, 1-d array, DataFrame, 2-d array}, method or method list, limit); quick: all masks of length <=6 plus random vectors to length 40 and '
        'frames to 8x3; thorough: ALL 2^n masks for every n<=10 x all methods x limit in {None,1,2,3}; non-trivial = mask with an interior NaN run and a leading or trailing NaN run, '
        'or an all-NaN row in a frame with a partly-NaN row; distinct = canonical hash')
RULE_ALSO = "; added by the coverage audit and round 8: 'backfill' spelling, nona with the NaN value spelt out in five ways"
ASSUMPTIONS = ['axis is not part of the statement and is not varied', 'numeric constants are combined with limit=None only (pandas counts the limit differently for value fills)',
               "an all-NaN column is left unchanged by ffill_na / ffill_0 (no 'last valid observation' exists)",
               "the deprecated alias 'pad' is not exercised",
               "in method lists no step that fills the tail (ffill, a constant) precedes ffill_na / ffill_0: whether 'the last valid observation' is then that of the input or of the intermediate result is not settled by the statement (the library uses the input's)"]
NAN = float('nan')
T0 = datetime.datetime(2020, 1, 1)


def required(tier):
    return {'fill_model': 1500, 'non_nan_cells_never_change': 1500, 'array_equals_pandas_values': 500, 'input_unmodified': 1500, 'nona_model': 300}


def exhaustive(tier):
    return tier == 'thorough'


def exhaustive_note(tier):
    return 'thorough: every NaN mask of every length n<=10 x every single method x limit in {None,1,2,3} for Series and 1-d arrays' if tier == 'thorough' else 'quick: every mask of length <= 6'


def isn(v):
    return v != v


def m_ffill(col, limit):
    out, last, run = [], None, 0
    for v in col:
        if isn(v):
            run += 1
            out.append(last if (last is not None and (limit is None or run <= limit)) else NAN)
        else:
            last, run = v, 0
            out.append(v)
    return out


def m_bfill(col, limit):
    return m_ffill(col[::-1], limit)[::-1]


def m_apply(cols, method, limit):
    """cols: list of columns (lists). returns (cols, kept_row_positions)"""
    n = len(cols[0]) if cols else 0
    keep = list(range(n))
    if isinstance(method, (int, float)) and not isinstance(method, bool):
        if limit is None:
            return [[method if isn(v) else v for v in c] for c in cols], keep
        out = []
        for c in cols:        # a constant with a limit takes the first `limit` NaN of each column (pandas' rule for value fills)
            left, cc = limit, []
            for v in c:
                if isn(v) and left > 0:
                    cc.append(method); left -= 1
                else:
                    cc.append(v)
            out.append(cc)
        return out, keep
    if method == 'ffill':
        return [m_ffill(c, limit) for c in cols], keep
    if method == 'bfill':
        return [m_bfill(c, limit) for c in cols], keep
    if method in ('ffill_na', 'ffill_0'):
        out = []
        for c in cols:
            valid = [i for i, v in enumerate(c) if not isn(v)]
            if not valid:
                out.append(list(c))
                continue
            L = valid[-1]
            f = m_ffill(c, limit)
            out.append([f[i] if i <= L else (NAN if method == 'ffill_na' else 0.0) for i in range(n)])
        return out, keep
    allnan = [all(isn(c[i]) for c in cols) for i in range(n)]
    if method == 'nona':
        keep = [i for i in range(n) if not allnan[i]]
    elif method == 'fnna':
        first = next((i for i in range(n) if not allnan[i]), n)
        keep = list(range(first, n))
    else:
        raise HarnessError(method)
    return [[c[i] for i in keep] for c in cols], keep


def build(case):
    import pandas as pd
    cols = [[NAN if v is None else (float('inf') if v == 'inf' else -float('inf') if v == '-inf' else float(v)) for v in c] for c in case['cols']]
    n = len(cols[0])
    kind = case['kind']
    days = case.get('days') or list(range(n))        # may hold repeated labels
    idx = pd.DatetimeIndex([T0 + datetime.timedelta(days=i) for i in days])
    _IDX['off'] = case.get('intidx')
    if case.get('intidx') is not None:
        idx = pd.Index([case['intidx'] + i for i in days])        # integer labels that are not the positions
    if kind == 'series':
        return pd.Series(cols[0], index=idx, dtype=float), cols
    if kind == 'arr1':
        return np.array(cols[0], dtype=float), cols
    mat = np.array(cols, dtype=float).T.reshape(n, len(cols))
    if kind == 'frame':
        names_ = ['c%d' % i for i in range(len(cols))]
        if case.get('dupcols') and len(names_) > 1:
            names_[1] = names_[0]              # a repeated column label (frames glued together without suffixes): columns are still columns
        return pd.DataFrame(mat, index=idx, columns=names_), cols
    return mat.copy(), cols


_IDX = {'off': None}


def _pos(index):
    if _IDX['off'] is not None:
        return [int(l) - _IDX['off'] for l in index]
    return [int((t - T0).days) for t in index.to_pydatetime()]


def values_of(res):
    import pandas as pd
    if isinstance(res, pd.Series):
        return [res.values.tolist()], _pos(res.index)
    if isinstance(res, pd.DataFrame):
        return [res.iloc[:, j].values.tolist() for j in range(res.shape[1])], _pos(res.index)
    a = np.asarray(res)
    if a.ndim == 1:
        return [a.tolist()], None
    return [a[:, j].tolist() for j in range(a.shape[1])], None


def veq(a, b):
    return len(a) == len(b) and all((isn(x) and isn(y)) or x == y for x, y in zip(a, b))


def run_case(case, ctx):
    import pandas as pd
    from pyg_base import df_fillna, nona
    x, cols = build(case)
    if case.get('readonly') and isinstance(x, np.ndarray):
        x.flags.writeable = False           # an array the caller has frozen: filling never needs to write into its input
    before = x.copy()
    method = case['method']
    if case.get('const_as'):
        ca = case['const_as']
        mod_ = lambda m: m if not isinstance(m, float) else {'inf': float('inf'), '-inf': -float('inf'), 'int': float(int(m))}.get(ca, m)
        arg_ = lambda m: m if not isinstance(m, float) else {'np32': np.float32, 'np16': np.float16, 'np64': np.float64, 'int': int}.get(ca, float)(mod_(m))
        if any(isinstance(m, float) and float(arg_(m)) != mod_(m) for m in (method if isinstance(method, list) else [method])):
            raise HarnessError('constant %r not exact as %s' % (method, ca))
        call_method = [arg_(m) for m in method] if isinstance(method, list) else arg_(method)
        method = [mod_(m) for m in method] if isinstance(method, list) else mod_(method)
        ctx.cls('constant_given_as:%s' % ca)
    else:
        call_method = method
    methods = method if isinstance(method, list) else [method]
    limit = case['limit']
    if case.get('fn') == 'nona':
        edge = case.get('edge')
        if case.get('nan_value') and edge is None:
            # the value to drop spelt out: a NaN is a NaN whichever object carries it
            import math
            nv = {'float': float('nan'), 'math': math.nan, 'np64': np.float64('nan'), 'computed': float('inf') - float('inf'), 'npnan': np.nan}[case['nan_value']]
            st, res = ctx.call(nona, x, nv) if case.get('positional') else ctx.call(nona, x, value=nv)
            ctx.cls('nona:value_given_as_%s' % case['nan_value'])
        else:
            st, res = ctx.call(nona, x, edge=edge) if edge is not None else ctx.call(nona, x)
        n = len(cols[0])
        allnan = [all(isn(c[i]) for c in cols) for i in range(n)]
        good = [i for i in range(n) if not allnan[i]]
        if edge is None or not good or case['kind'] in ('arr1', 'arr2'):
            keep = good
        elif edge == 1:
            keep = list(range(0, good[-1] + 1))
        else:
            keep = list(range(good[0], n))
        exp = [[c[i] for i in keep] for c in cols]
        ok = st == 'ok' and type(res) is type(x)
        if ok:
            got, pos = values_of(res)
            if case.get('days') and pos is not None:
                pos = keep if pos == [case['days'][i] for i in keep] else pos
            ok = len(got) == len(exp) and all(veq(g, e) for g, e in zip(got, exp)) and (pos is None or pos == keep)
            if ok and isinstance(x, pd.DataFrame):
                ok = list(res.columns) == list(x.columns)
        ctx.check('nona_model', ok, lambda: 'nona(%s %r, edge=%r) = %s %r ; model keeps rows %r' % (case['kind'], case['cols'], edge, st, res, keep))
    else:
        lim_arg = np.int64(limit) if (limit is not None and case.get('np_limit')) else limit
        m_arg = call_method
        if case.get('alias_backfill') and not case.get('const_as'):
            m_arg = 'backfill' if method == 'bfill' else ['backfill' if m_ == 'bfill' else m_ for m_ in method] if isinstance(method, list) else method      # pandas' other name for bfill
            ctx.cls('method_spelt_backfill')
        st, res = ctx.call(df_fillna, x, m_arg, 0, lim_arg) if case.get('positional') else ctx.call(df_fillna, x, method=m_arg, limit=lim_arg)
        exp, keep = cols, list(range(len(cols[0])))
        for m in methods:
            exp, k2 = m_apply(exp, m, limit)
            keep = [keep[i] for i in k2]
        ok = st == 'ok' and type(res) is type(x)
        got = pos = None
        if ok:
            got, pos = values_of(res)
            if case.get('days') and pos is not None:
                pos_ok = pos == [case['days'][i] for i in keep]
                pos = keep if pos_ok else pos
            ok = len(got) == len(exp) and all(veq(g, e) for g, e in zip(got, exp)) and (pos is None or pos == keep)
            if ok and isinstance(x, pd.DataFrame):
                ok = list(res.columns) == list(x.columns)
        if not case.get('diff_only'):      # (a constant with a finite limit on an array: which NaNs the limit reaches is not modelled here, only 'array = values of the pandas result' and 'non-NaN cells never change' are checked)
            ctx.check('fill_model', ok, lambda: 'df_fillna(%s %r, method=%r, limit=%r) = %s %r\nmodel %r rows %r' % (case['kind'], case['cols'], method, limit, st, res if st != 'ok' else got, exp, keep))
        else:
            ctx.cls('array_constant_with_limit')
        if st == 'ok' and got is not None and len(got) == len(cols):
            # non-NaN cells never change (on the rows that survive)
            okc = True
            rows = pos if pos is not None else (keep if len(got[0]) == len(keep) else None)
            if rows is not None and len(rows) == len(got[0]):
                for c, g in zip(cols, got):
                    for j, i in enumerate(rows):
                        if not isn(c[i]) and g[j] != c[i]:
                            okc = False
            ctx.check('non_nan_cells_never_change', okc, lambda: 'a non-NaN cell changed: in %r out %r' % (case['cols'], got))
        if case['kind'] in ('arr1', 'arr2') and st == 'ok':
            px = pd.Series(x) if x.ndim == 1 else pd.DataFrame(x)
            st2, r2 = ctx.call(df_fillna, px, method=method, limit=limit)
            okv = st2 == 'ok' and np.asarray(res).shape == r2.values.shape and veq(np.asarray(res).reshape(-1).tolist(), r2.values.reshape(-1).tolist())
            ctx.check('array_equals_pandas_values', okv, lambda: 'array result %r != values of the pandas result %r' % (res, r2))
    same_in = (x.equals(before) and list(x.index) == list(before.index)) if hasattr(x, 'equals') else (x.shape == before.shape and veq(x.reshape(-1).tolist(), before.reshape(-1).tolist()))
    ctx.check('input_unmodified', same_in, lambda: 'input modified: %r -> %r' % (before, x))
    c0 = cols[0]
    mask = [isn(v) for v in c0]
    if mask and (mask[0] or mask[-1]) and any(mask[i] and not mask[i - 1] and i > 0 for i in range(len(mask))) and any(not m for m in mask):
        ctx.mark_nontrivial(case)
    ctx.cls('kind:' + case['kind'])
    ctx.cls('method:%s' % (method if not isinstance(method, list) else 'list'))


SINGLE = ['ffill', 'bfill', 0.0, 7.5, 'nona', 'fnna', 'ffill_na', 'ffill_0']
LISTS = [['fnna', 'ffill_na'], ['nona', 'ffill_0'], ['fnna', 'ffill_0'], ['nona', 'ffill_na'], ['ffill', 'ffill'], ['bfill', 'bfill'], ['ffill', 'bfill', 'bfill'], ['ffill', 'ffill', 'ffill'], ['ffill', 'bfill'], ['bfill', 'ffill'], ['ffill', 0.0], ['fnna', 'ffill'], ['nona'], ['ffill', 'nona'], ['ffill_na', 'bfill'], ['bfill', 0.0], ['fnna', 'bfill', 'ffill'],
         [0.0, 'ffill'], [0.0, 'bfill'], [7.5, 'ffill', 'bfill'],
         ['fnna', 'ffill', 'nona'], ['fnna', 0.0, 'nona'], ['fnna', 'bfill', 'nona'], ['nona', 'bfill', 'fnna'],
         ['ffill_0', 0.0], ['ffill_na', 7.5], ['ffill_0', 7.5], ['ffill_na', 0.0, 'ffill'], ['ffill_na', 0.0], ['bfill', 'ffill_0', 7.5]]


def mask_cols(mask, base=1):
    return [[None if m else float(base + i) for i, m in enumerate(mask)]]


def gen_random(rng):
    kind = rng.choice(['series', 'arr1', 'frame', 'frame', 'arr2'])
    if kind in ('series', 'arr1'):
        n = rng.choice([0, 1, 2, 5, 11, 20, 40]) if rng.random() > 0.03 else rng.choice([130, 260])       # a few long vectors in every tier: any size-dependent path is reached
        p = rng.choice([0.1, 0.4, 0.7, 1.0])
        cols = [[None if rng.random() < p else float(i + 1) for i in range(n)]]
    else:
        n = rng.choice([0, 1, 3, 5, 8]) if rng.random() > 0.03 else rng.choice([70, 140])
        k = rng.choice([1, 2, 3])
        p = rng.choice([0.2, 0.5, 0.8])
        cols = [[None if rng.random() < p else float(100 * j + i + 1) for i in range(n)] for j in range(k)]
        for i in range(n):
            if rng.random() < 0.2:
                for c in cols:
                    c[i] = None
        if rng.random() < 0.15 and k > 1:
            cols[0] = [None] * n
    if rng.random() < 0.2:
        c_ = {'kind': kind, 'cols': cols, 'fn': 'nona', 'edge': rng.choice([None, None, 1, -1]), 'method': None, 'limit': None}
        if kind in ('series', 'frame') and rng.random() < 0.2 and c_['edge'] is None:      # nona's edge option cuts through df_slice, which is about timeseries
            c_['intidx'] = rng.choice([3, 100, -2])
        if kind in ('series', 'frame') and c_['edge'] is None and rng.random() < 0.3 and len(cols[0]) >= 2:
            days, dcur = [], 0
            for i in range(len(cols[0])):
                days.append(dcur)
                if rng.random() < 0.6:
                    dcur += 1
            c_['days'] = days
        if c_['edge'] is None and rng.random() < 0.3:
            c_['nan_value'] = rng.choice(['float', 'math', 'np64', 'computed', 'npnan'])
            c_['positional'] = rng.random() < 0.5
        return c_
    if rng.random() < 0.3:
        method = rng.choice(LISTS)
    else:
        method = rng.choice(SINGLE)
    limit = rng.choice([None, None, 1, 2, 3])
    intidx = rng.choice([3, 100, -2]) if (kind in ('series', 'frame') and rng.random() < 0.2) else None
    if any(isinstance(m, float) for m in (method if isinstance(method, list) else [method])) and not (isinstance(method, list) and method in ([0.0, 'ffill'], [0.0, 'bfill'], [7.5, 'ffill', 'bfill']) and kind in ('series', 'arr1')):
        limit = None
    case = {'kind': kind, 'cols': cols, 'method': method, 'limit': limit, 'positional': rng.random() < 0.2}
    if kind in ('arr1', 'arr2') and not isinstance(method, list) and isinstance(method, float) and rng.random() < 0.5:
        case['limit'] = rng.choice([1, 2])
        case['diff_only'] = True
    if intidx is not None:
        case['intidx'] = intidx
    if any(isinstance(m, float) for m in (method if isinstance(method, list) else [method])) and rng.random() < 0.35:
        # the constant as a caller may hold it: a numpy scalar of another precision (the mean of a float32 array), or an infinity
        case['const_as'] = rng.choice(['np32', 'np16', 'np64', 'inf', '-inf', 'int'])
    if kind in ('arr1', 'arr2') and rng.random() < 0.3:
        case['readonly'] = True
    if kind == 'frame' and rng.random() < 0.12:
        case['dupcols'] = True
    if limit is not None and rng.random() < 0.25:
        case['np_limit'] = True
    if 'bfill' in (method if isinstance(method, list) else [method]) and rng.random() < 0.3:
        case['alias_backfill'] = True
    if rng.random() < 0.2:
        # +-inf are ordinary non-NaN cells: never filled, never changed
        for c in cols:
            for i in range(len(c)):
                if c[i] is not None and rng.random() < 0.25:
                    c[i] = rng.choice(['inf', '-inf'])
    ms = method if isinstance(method, list) else [method]
    if kind in ('series', 'frame') and rng.random() < 0.2 and len(cols[0]) >= 2 and not any(m in ('fnna', 'ffill_na', 'ffill_0') for m in ms):
        # repeated index labels (two prints for one day): rows are still rows
        days, dcur = [], 0
        for i in range(len(cols[0])):
            days.append(dcur)
            if rng.random() < 0.6:
                dcur += 1
        case['days'] = days
    return case


def plan(tier, seed, n):
    maxn = 6 if tier == 'quick' else 10
    masks = [m for k in range(0, maxn + 1) for m in itertools.product([False, True], repeat=k)]
    nr = 400 if tier == 'quick' else 20000
    return [{'lo': i * len(masks) // n, 'hi': (i + 1) * len(masks) // n, 'maxn': maxn, 'nr': nr} for i in range(n)]


def run(spec, ctx):
    masks = [m for k in range(0, spec['maxn'] + 1) for m in itertools.product([False, True], repeat=k)][spec['lo']:spec['hi']]
    rng = random.Random('C12/%d/%d' % (spec['seed'], spec['shard']))
    for mask in masks:
        for kind in ('series', 'arr1'):
            for method in SINGLE:
                for limit in ((None,) if isinstance(method, float) else (None, 1, 2, 3)):
                    case = {'kind': kind, 'cols': mask_cols(mask), 'method': method, 'limit': limit}
                    ctx.case(case)
                    ctx.run_case(case, run_case)
            for edge in (None, 1, -1):
                case = {'kind': kind, 'cols': mask_cols(mask), 'fn': 'nona', 'edge': edge, 'method': None, 'limit': None}
                ctx.case(case)
                ctx.run_case(case, run_case)
        if ctx.full():
            return
    for i in range(spec['nr']):
        case = gen_random(rng)
        ctx.case(case)
        ctx.run_case(case, run_case)
        if ctx.full():
            return


def replay(case, ctx):
    ctx.case(case)
    ctx.run_case(case, run_case, shrink=False)
