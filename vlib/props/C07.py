"""C07 - cmp is a total preorder over mixed types; sort / dictable.sort follow it stably.

Monitor shape: law monitors on the real cmp over a mixed-type universe (full pair matrix, all triples via boolean
matrix product), post-conditions on sort (permutation by identity + non-decreasing under cmp), and a stable-sort
reference model for dictable.sort."""
import random, functools, itertools
import numpy as np
from .. import core, codec, gen
from ..core import same, HarnessError

ID = 'C07'
TITLE = 'cmp total preorder; sort / dictable.sort follow it stably'
LEVEL = 'exploration'
TECHNIQUE = 'runtime monitoring: law monitors on the real cmp over a mixed-type universe (full matrix, all triples by boolean matrix product), post-conditions on sort, stable-sort model for dictable.sort'
LEVEL_TEXT = 'All ordered pairs and all triples of a ~190 value universe plus random universes; sort/dictable.sort on random inputs. A check says held on K observed executions, never verified.'
LEVEL_NOTE = 'Trusted: numpy matrix product for the triple check; the dictable.sort model uses the real cmp (whose laws are monitored here).'
RULE = ('cmp laws: full pair matrix + all triples over a fixed universe (~190 scalars/numpy scalars/dates/containers/nestings) and over random '
        'universes of 40 generated nested values; sort: random lists of scalars / equal-length tuples; dictable.sort: random tables x key '
        'columns / key function / explicit value orders.  non-trivial = a universe (counted once per distinct universe), a list containing a NaN '
        'not already last or >=2 type families, a table with >=1 tie among the keys; distinct = canonical hash')
RULE_ALSO = '; added by the coverage audit and round 8: key columns given as a name next to a list'
ASSUMPTIONS = ['bools and +-inf take part in the cmp laws only (as the statement says)', 'dict keys are strings', 'dictable.sort model uses the real cmp as comparator (its laws are monitored here)',
               'no timezone-aware datetimes']


def required(tier):
    return {'cmp_total': 30000, 'cmp_antisymmetric': 15000, 'cmp_transitive_triples': 1000000, 'cmp_int_float_equal': 20, 'cmp_nan_above_finite': 20,
            'sort_permutation': 200, 'sort_nondecreasing': 200, 'dsort_model': 200, 'dsort_idempotent': 200, 'dsort_value_orders': 50}


def T(*xs):
    return {'$t': list(xs)}


def universe():
    nan = lambda k: {'$nan': k}
    dt = lambda s: {'$dt': s}
    u = [None, True, False, 0, 1, 2, -1, 3, 10 ** 6, 0.0, 1.0, 2.5, -1.5, 1e-9, 3.0, {'$inf': 1}, {'$inf': -1}, nan(0), nan(1), nan('np'),
         {'$np': ['int64', 1]}, {'$np': ['int32', 2]}, {'$np': ['int64', -1]}, {'$np': ['float64', 1.0]}, {'$np': ['float32', 2.5]}, {'$np': ['float64', nan(2)]},
         {'$np': ['bool_', True]}, {'$np': ['bool_', False]}, {'$np': ['str_', 'x']}, {'$np': ['str_', 'abc']},
         {'$np': ['datetime64[D]', '2020-01-01']}, {'$np': ['datetime64[ns]', '2020-01-02T03:04:05']},
         '', 'x', 'y', 'abc', 'ab', 'b', 'X', '1', '2',
         {'$date': '2020-01-01'}, {'$date': '2021-06-30'}, dt('2020-01-01T00:00:00'), dt('2020-01-01T12:00:00'), dt('2021-06-30T00:00:00'), dt('1999-12-31T23:59:59'),
         T(), [], {}, {'$Dict': {}},
         T(1), T(2), T(1.0), T(None), T('x'), T(nan(3)), T(nan(4)), T(True), T(dt('2020-01-01T00:00:00')),
         T(1, 2), T(1, 'x'), T(1, None), T('x', 1), T(2, 1), T(1.0, 2.0), T(1, nan(5)), T(nan(6), 1), T(None, None), T(1, 2, 3), T(1, 2, 'x'), T(T(1), T(2)), T(T(1), 2), T([1], 2),
         [1], [2], [1.0], [None], ['x'], [nan(7)], [1, 2], [1, 'x'], [2, 1], [None, 1], [1, 2, 3], [[1], [2]], [T(1), 2], [[], []],
         {'a': 1}, {'a': 2}, {'a': 1.0}, {'b': 1}, {'a': None}, {'a': 'x'}, {'a': nan(8)}, {'a': nan(9)}, {'a': 1, 'b': 2}, {'b': 2, 'a': 1}, {'a': 1, 'c': 2}, {'a': 2, 'b': 1},
         {'a': [1, 2]}, {'a': T(1, 2)}, {'a': {'b': 1}}, {'a': {'b': 2}}, {'a': {}}, {'$Dict': {'a': 1}}, {'$dictattr': {'a': 1}}, {'$Dict': {'a': 1, 'b': 2}},
         T({'a': 1}), T({'a': 2}), [{'a': 1}], T({}, {}), [{}, 1]]
    # numeric neighbours and more strings/dates to thicken ties and type borders
    u += [4, 5, 5.0, 4.5, -2, -2.0, 100, 100.0, 'z', 'zz', 'a', 'aa', 'aaa', ' ', 'x y']
    u += [{'a': {'$np': ['float64', 2.0]}}, {'a': {'$np': ['int64', 2]}}, {'a': {'$np': ['float64', nan(20)]}}, {'a': {'$np': ['float64', 5.0]}}, {'a': 3}, {'a': {'$date': '2020-01-01'}}, {'a': dt('2020-01-01T00:00:00')},
          [{'a': {'$np': ['int64', 1]}}], T({'a': {'$np': ['float32', 2.5]}}), {'a': {'b': {'$np': ['int64', 1]}}}]
    u += [2 ** 53, 2 ** 53 + 1, float(2 ** 53), 10 ** 17, 10 ** 17 + 1, 1e17, {'$np': ['int64', 2 ** 53 + 1]}, T(2 ** 53 + 1, 1), T(float(2 ** 53), 1), T(2 ** 53, 1)]   # ints that round to one float
    # numpy floats next to ints no double can hold; infinities held as numpy scalars of one dtype
    u += [10 ** 400, -10 ** 400, {'$np': ['float64', 1.5]}, {'$np': ['float64', float(2 ** 53)]}, T({'$np': ['float64', 1.5]}, 1), T(10 ** 400, 1),
          {'$np': ['float64', {'$inf': -1}]}, {'$np': ['float64', {'$inf': 1}]}, {'$np': ['float64', 1.0]}, {'$np': ['float32', {'$inf': -1}]}, {'$np': ['float32', 1.0]}, {'$inf': -1}]
    u += [T(0), T(0.0), T(''), T('', ''), T(0, 0), [0], [0.0], [''], T(False), [True], {'a': True}, {'a': 0}]
    u += [dt('2020-01-01T00:00:01'), {'$date': '1999-12-31'}, {'$np': ['datetime64[D]', '2021-06-30']}, T(dt('2021-06-30T00:00:00'), 1), T({'$date': '2020-01-01'}, 1)]
    return u


def cmp_laws(ctx, terms, label):
    """full matrix + triples on the real cmp"""
    from pyg_base import cmp
    sess = codec._Session()
    vals = [codec.dec(t, sess) for t in terms]
    n = len(vals)
    M = np.zeros((n, n), dtype=np.int8)
    bad = False
    for i in range(n):
        for j in range(n):
            st, r = ctx.call(cmp, vals[i], vals[j])
            ok = st == 'ok' and (r is -1 or r is 0 or r is 1 or (isinstance(r, (int, np.integer)) and not isinstance(r, bool) and r in (-1, 0, 1)))
            ctx.ev('cmp_total')
            if not ok:
                both_empty_dict = isinstance(vals[i], dict) and isinstance(vals[j], dict) and len(vals[i]) == 0 and len(vals[j]) == 0
                ctx.fail('cmp_total', 'cmp(%r, %r) -> %s %r' % (terms[i], terms[j], st, r), case={'kind': 'cmp', 'x': terms[i], 'y': terms[j]})
                bad = True
                M[i, j] = 0
            else:
                M[i, j] = int(r)
    if bad:
        return
    # antisymmetry
    A = (M != -M.T)
    ctx.ev('cmp_antisymmetric', n * (n + 1) // 2)
    if A.any():
        i, j = map(int, np.argwhere(A)[0])
        ctx.fail('cmp_antisymmetric', 'cmp(x,y)=%d but cmp(y,x)=%d for x=%r y=%r' % (M[i, j], M[j, i], terms[i], terms[j]), case={'kind': 'cmp', 'x': terms[i], 'y': terms[j]})
    # transitivity over all triples: LE o LE subset LE, and EQ o EQ subset EQ, LE o LT subset LT
    LE = (M <= 0).astype(np.int32); LT = (M < 0).astype(np.int32)
    ctx.ev('cmp_transitive_triples', n * n * n)
    comp = (LE @ LE) > 0
    V = comp & (M > 0)
    if V.any():
        i, k = map(int, np.argwhere(V)[0])
        j = int(np.argwhere((LE[i, :] > 0) & (LE[:, k] > 0))[0][0])
        ctx.fail('cmp_transitive_triples', 'x<=y (%d), y<=z (%d) but cmp(x,z)=%d: x=%r y=%r z=%r' % (M[i, j], M[j, k], M[i, k], terms[i], terms[j], terms[k]),
                 case={'kind': 'cmp3', 'x': terms[i], 'y': terms[j], 'z': terms[k]})
    comp2 = ((LE @ LT) > 0) | ((LT @ LE) > 0)
    V2 = comp2 & (M >= 0)
    if V2.any() and not V.any():
        i, k = map(int, np.argwhere(V2)[0])
        ctx.fail('cmp_transitive_triples', 'strict chain x<=y<z or x<y<=z but cmp(x,z)=%d: x=%r z=%r' % (M[i, k], terms[i], terms[k]), case={'kind': 'cmp', 'x': terms[i], 'y': terms[k]})
    # anchors
    for i, v in enumerate(vals):
        if isinstance(v, (int, np.integer)) and not isinstance(v, (bool, np.bool_)) and abs(int(v)) < 2 ** 53:
            st, r = ctx.call(cmp, v, float(v))
            ctx.check('cmp_int_float_equal', st == 'ok' and r == 0, lambda: 'cmp(%r, float) = %r' % (terms[i], r))
            st, r = ctx.call(cmp, (v, 'k'), (float(v), 'k'))
            ctx.check('cmp_int_float_equal', st == 'ok' and r == 0, lambda: 'cmp((%r,k), (float,k)) = %r' % (terms[i], r))
    # numerically equal ints and floats compare 0 wherever they sit: same-shaped containers differing only in int/float spelling of equal numbers
    def ncanon(v):
        if isinstance(v, (bool, np.bool_)):
            return ('b', bool(v))
        if isinstance(v, (int, float, np.integer, np.floating)):
            if v != v:
                return ('nan',)
            if abs(v) != float('inf') and abs(int(v)) >= 2 ** 53:
                return ('big', type(v).__name__, repr(v))
            return ('n', float(v))
        if isinstance(v, (list, tuple)):
            return (type(v).__name__,) + tuple(ncanon(x) for x in v)
        if isinstance(v, dict):
            return (type(v).__name__,) + tuple((k, ncanon(v[k])) for k in v)
        return ('o', type(v).__name__, repr(v))
    groups = {}
    for i, v in enumerate(vals):
        try:
            groups.setdefault(ncanon(v), []).append(i)
        except Exception:
            pass
    for g in groups.values():
        for i in g:
            for j in g:
                if i < j and isinstance(vals[i], (list, tuple, dict)):
                    ctx.check('cmp_int_float_equal', M[i, j] == 0 and M[j, i] == 0, lambda: 'cmp(%r, %r) = %d: same shape, numerically equal numbers' % (terms[i], terms[j], M[i, j]))
    isn = lambda v: isinstance(v, (float, np.floating)) and v != v
    fin = lambda v: isinstance(v, (int, float, np.integer, np.floating)) and not isinstance(v, (bool, np.bool_)) and v == v and abs(v) != float('inf')
    for i, v in enumerate(vals):
        if isn(v):
            for j, w in enumerate(vals):
                if fin(w):
                    ctx.check('cmp_nan_above_finite', M[i, j] == 1 and M[j, i] == -1, lambda: 'cmp(nan, %r)=%d' % (terms[j], M[i, j]))
                elif isn(w):
                    ctx.check('cmp_nan_equals_nan', M[i, j] == 0, lambda: 'cmp(nan, nan) = %d for different identities' % M[i, j])
    ctx.cls(label)


def rand_value(rng, depth=0):
    r = rng.random()
    if depth >= 2 or r < 0.5:
        return rng.choice([None, 0, 1, 2, 1.0, 2.5, -1, 'x', 'y', '', 'ab', {'$nan': rng.randrange(50)}, {'$nan': 'np'}, {'$dt': '2020-01-01T00:00:00'}, {'$dt': '2021-06-30T00:00:00'},
                           True, False, {'$inf': 1}, {'$np': ['int64', 1]}, {'$np': ['float64', 2.5]}, {'$date': '2020-01-01'}])
    k = rng.randint(0, 3)
    if r < 0.7:
        return T(*[rand_value(rng, depth + 1) for _ in range(k)])
    if r < 0.85:
        return [rand_value(rng, depth + 1) for _ in range(k)]
    return {c: rand_value(rng, depth + 1) for c in rng.sample(['a', 'b', 'c'], min(k, 3))}


# ------------------------------------------------------------------ sort
def sort_scalar(rng, fam):
    if fam == 'num':
        return rng.choice([0, 1, 2, 3, -1, 1.0, 2.5, -1.5, 3.0, 10])
    if fam == 'nan':
        return rng.choice([0, 1, 2.5, {'$nan': rng.randrange(50)}, {'$nan': 'np'}, 3])
    if fam == 'inf':      # (beyond the statement's list for sort: since cmp ranks -inf < finite < +inf < NaN, python's native order and cmp agree on them)
        return rng.choice([0, 1, 2.5, {'$inf': -1}, {'$inf': 1}, -3, {'$nan': rng.randrange(50)}, 7])
    if fam == 'str':
        return rng.choice(['x', 'y', '', 'ab', 'b', 'abc', 'X'])
    if fam == 'dt':
        return {'$dt': rng.choice(['2020-01-01T00:00:00', '2021-06-30T00:00:00', '2020-01-01T12:00:00', '1999-12-31T00:00:00'])}
    if fam == 'ns':       # stamps a few hundred nanoseconds apart, as pandas Timestamps and as numpy datetime64[ns] (both carry them), next to a plain datetime
        return rng.choice([{'$pdts': '2020-01-01T00:00:00.000000200'}, {'$np': ['datetime64[ns]', '2020-01-01T00:00:00.000000500']}, {'$pdts': '2020-01-01T00:00:00.000000700'},
                           {'$np': ['datetime64[ns]', '2020-01-01T00:00:00.000000100']}, {'$dt': '2020-01-01T00:00:00'}, {'$pdts': '2020-01-01T00:00:00.000001'}, {'$np': ['datetime64[ns]', '2020-01-01T00:00:00.000000200']}])
    if fam == 'none':
        return rng.choice([None, 1, 'x'])
    return rng.choice([None, 0, 1, 1.0, 2.5, {'$nan': rng.randrange(50)}, 'x', 'ab', '', {'$dt': '2020-01-01T00:00:00'}, {'$dt': '2021-06-30T00:00:00'}, -1, 3])


def gen_sort_case(rng):
    n = rng.choice([0, 1, 2, 3, 5, 8, 12, 20])
    if rng.random() < 0.02:
        n = rng.choice([130, 260])
    width = rng.choice([0, 0, 1, 2, 3])
    fams = [rng.choice(['num', 'nan', 'str', 'dt', 'none', 'mixed', 'mixed', 'inf', 'ns']) for _ in range(max(width, 1))]
    if width == 0:
        xs = [sort_scalar(rng, fams[0]) for _ in range(n)]
    else:
        xs = [T(*[sort_scalar(rng, f) for f in fams]) for _ in range(n)]
    return {'kind': 'sort', 'xs': xs, 'form': rng.choice(['list', 'list', 'list', 'tuple', 'gen', 'values'])}


def run_sort(case, ctx):
    from pyg_base import sort, cmp
    xs = codec.dec(case['xs'])
    snap0 = [id(x) for x in xs]
    arg = list(xs)
    form = case.get('form', 'list')
    if form == 'tuple':
        st, res = ctx.call(sort, tuple(arg))          # any iterable: a tuple, a generator, the values of a dict
    elif form == 'gen':
        st, res = ctx.call(sort, (x for x in arg))
    elif form == 'values':
        st, res = ctx.call(sort, {i: x for i, x in enumerate(arg)}.values())
    else:
        st, res = ctx.call(sort, arg)
    ctx.check('sort_input_unchanged', len(arg) == len(xs) and all(a is b for a, b in zip(arg, xs)) and (st != 'ok' or res is not arg), lambda: 'sort reordered / returned the list it was given')
    if not ctx.check('sort_never_raises', st == 'ok', lambda: 'sort raised %s' % core.exc_str(res)):
        return
    ctx.check('sort_permutation', isinstance(res, list) and sorted(map(id, res)) == sorted(snap0), lambda: 'sort result is not a permutation (by identity): %r -> %r' % (xs, res))
    ok = True
    for a, b in zip(res, res[1:]):
        if cmp(a, b) > 0:
            ok = False
            break
    ctx.check('sort_nondecreasing', ok, lambda: 'sort result not non-decreasing under cmp: %r' % (res,))
    from pyg_base import Cmp
    st2, res2 = ctx.call(lambda: sorted(list(xs), key=Cmp))
    ok2 = st2 == 'ok' and sorted(map(id, res2)) == sorted(snap0) and all(cmp(a, b) <= 0 for a, b in zip(res2, res2[1:]))
    ctx.check('sorted_key_Cmp', ok2, lambda: 'sorted(xs, key=Cmp) -> %s %r' % (st2, res2))
    flat = [c for x in case['xs'] for c in (x['$t'] if isinstance(x, dict) and '$t' in x else [x])]
    fam = {('nan' if isinstance(c, dict) and '$nan' in c else type(c).__name__) for c in flat}
    nanpos = [i for i, x in enumerate(case['xs']) if 'nan' in repr(x)]
    if len(fam - {'nan'}) >= 2 or (nanpos and nanpos != list(range(len(xs) - len(nanpos), len(xs)))):
        ctx.mark_nontrivial(case)
    ctx.cls('sort:' + ('tuples' if case['xs'] and isinstance(case['xs'][0], dict) and '$t' in case['xs'][0] else 'scalars'))
    if nanpos:
        ctx.cls('sort:with_nan')


# ------------------------------------------------------------------ dictable.sort
def gen_dsort_case(rng):
    n = rng.choice([0, 1, 2, 3, 4, 6, 9, 14])
    if rng.random() < 0.03:
        n = rng.choice([129, 200, 300])       # long tables: any size-dependent path of the sorting code
    names = rng.sample(['a', 'b', 'c'] if rng.random() > 0.1 else ['data', 'columns', 'key'], rng.randint(1, 3))
    fams = {c: rng.choice(['num', 'nan', 'str', 'dt', 'none', 'mixed']) for c in names}
    cols = {c: [sort_scalar(rng, fams[c]) for _ in range(n)] for c in names}
    cols['id'] = list(range(n))
    if rng.random() < 0.15:
        cols['lst'] = [rng.choice([[10, 20], [], {'$t': [1, 2]}, [7]]) for _ in range(n)]       # vector-valued cells are cells
    r = rng.random()
    if r < 0.55:
        by = {'cols': rng.sample(names, rng.randint(1, len(names))), 'as_list': rng.choice([True, True, 'mixed', 'kept_lists', False, False, False, False, False, False])}      # 'mixed': the first key by itself, the others as a list
    elif r < 0.75:
        by = {'fn': rng.choice(['ident', 'isnone', 'strlen']), 'arg': rng.choice(names)}
    else:
        orders = {}
        for c in rng.sample(names, rng.randint(1, min(2, len(names)))):
            pool = [v for v in cols[c] if not isinstance(v, dict) or '$dt' in v]
            extra = [sort_scalar(rng, fams[c]) for _ in range(2)]
            cand = []
            for v in pool + extra:
                if not (isinstance(v, dict) and '$nan' in v) and not any(v == w and type(v) is type(w) or (not isinstance(v, (dict, str, type(None))) and not isinstance(w, (dict, str, type(None))) and v == w) for w in cand):
                    cand.append(v)
            rng.shuffle(cand)
            orders[c] = cand[:rng.randint(0, len(cand))]
        by = {'orders': orders}
    return {'kind': 'dsort', 'cols': cols, 'by': by}


KEYFN = {'ident': lambda v: v, 'isnone': lambda v: v is None, 'strlen': lambda v: len(v) if isinstance(v, str) else -1}


def run_dsort(case, ctx):
    from pyg_base import dictable, cmp
    sess = codec._Session()
    cols = {c: codec.dec(v, sess) for c, v in case['cols'].items()}
    n = len(cols['id'])
    d = dictable(cols) if n else dictable([], list(cols))
    rows = [dict(r) for r in d]
    by = case['by']
    snap0 = core.snap(dict(d))
    if 'cols' in by:
        call = (lambda t: t.sort(list(by['cols']))) if by.get('as_list') is True else (lambda t: t.sort(by['cols'][0], list(by['cols'][1:]))) if by.get('as_list') == 'mixed' and len(by['cols']) >= 2 else (lambda t: t.sort(*by['cols']))       # the key columns as separate arguments or as one list: the same keys in the same order
        key = lambda r: tuple(r[c] for c in by['cols'])
        if by.get('as_list') == 'kept_lists' and len(by['cols']) >= 2:
            # the caller keeps its key lists and passes the very same objects every time: sort(major, minor) leaves them as they are
            major, minor = list(by['cols'][:1]), list(by['cols'][1:])
            call = lambda t: t.sort(major, minor)
            kept_lists = [(major, list(major)), (minor, list(minor))]
    elif 'fn' in by:
        f0 = KEYFN[by['fn']]
        f = eval('lambda %s: f0(%s)' % (by['arg'], by['arg']), {'f0': f0})
        call = lambda t: t.sort(f)
        key = lambda r: (f0(r[by['arg']]),)
    else:
        orders = {c: codec.dec(v, sess) for c, v in by['orders'].items()}
        call = lambda t: t.sort(**{c: list(v) for c, v in orders.items()})

        def rank(v, lst):
            for i, w in enumerate(lst):
                try:
                    if v is w or (v == w and hash(v) == hash(w)):
                        return i
                except TypeError:
                    pass
            return len(lst)
        key = lambda r: tuple(rank(r[c], lst) for c, lst in orders.items())
    st, res = ctx.call(call, d)
    mon = 'dsort_value_orders' if 'orders' in by else 'dsort_model'
    if st != 'ok':
        ctx.ev(mon)
        ctx.fail(mon, 'dictable.sort raised %s' % core.exc_str(res))
        return
    exp = sorted(rows, key=functools.cmp_to_key(lambda a, b: cmp(key(a), key(b))))  # python's sorted is stable
    exp_ids = [r['id'] for r in exp]
    # ties under cmp may legitimately be broken only by original order => exact id sequence
    ok = type(res) is dictable and list(res.get('id')) == exp_ids and sorted(res.keys()) == sorted(cols) and all(same(dict(a), rows[a['id']]) for a in res)
    ctx.check(mon, ok, lambda: 'sort by %s: got ids %s, stable model %s\nrows=%s' % (by, list(res.get('id')), exp_ids, rows))
    ctx.check('operands_unchanged', core.snap_same(core.snap(dict(d)), snap0), lambda: 'table modified by sort')
    if st == 'ok' and ok and n >= 2 and 'cols' in by:
        # sort the sorted table again after its key column was reassigned in place: a remembered 'already sorted' must not survive
        c0 = by['cols'][0]
        col = list(res[c0])
        res_rows_before = [dict(r) for r in res]
        res[c0] = col[1:] + col[:1]
        rows3 = [dict(r) for r in res]
        st3, res3 = ctx.call(call, res)
        exp3 = sorted(rows3, key=functools.cmp_to_key(lambda a, b: cmp(key(a), key(b))))
        ok3 = st3 == 'ok' and len(res3) == len(exp3) and all(same(dict(a), b) for a, b in zip(res3, exp3))
        ctx.check('dsort_model', ok3, lambda: 'sorting again after the key column %r was reassigned: %s, model %s' % (c0, [dict(r) for r in res3] if st3 == 'ok' else res3, exp3))
        res[c0] = col
    if 'cols' in by and by.get('as_list') == 'kept_lists' and len(by['cols']) >= 2:
        ctx.check('operands_unchanged', all(a == b for a, b in kept_lists), lambda: 'sort(major, minor) edited the key lists it was given: %r' % ([a for a, _ in kept_lists],))
        ctx.cls('dsort:key_lists_kept_by_the_caller')
    st2, res2 = ctx.call(call, res)
    ctx.check('dsort_idempotent', st2 == 'ok' and list(res2.get('id')) == list(res.get('id')), lambda: 'sort(sort(d)) ids %s != %s' % (list(res2.get('id')) if st2 == 'ok' else res2, list(res.get('id'))))
    ks = [key(r) for r in rows]
    if any(cmp(a, b) == 0 for a, b in itertools.combinations(ks, 2)):
        ctx.mark_nontrivial(case)
        ctx.cls('dsort:ties')
    ctx.cls('dsort:' + ('cols' if 'cols' in by else 'fn' if 'fn' in by else 'orders'))


def run_case(case, ctx):
    k = case['kind']
    if k == 'sort':
        return run_sort(case, ctx)
    if k == 'dsort':
        return run_dsort(case, ctx)
    if k == 'universe':
        terms = universe() if case['which'] == 'fixed' else case['terms']
        return cmp_laws(ctx, terms, 'universe:' + case['which'])
    if k in ('cmp', 'cmp3'):
        return cmp_laws(ctx, [case[x] for x in ('x', 'y', 'z') if x in case], 'replay')
    raise HarnessError(k)


SHRINK = False


def plan(tier, seed, n):
    per_u, per_s = (5, 800) if tier == 'quick' else (150, 40000)
    specs = [{'fixed': True, 'nu': 0, 'ns': 0}]
    specs += [{'fixed': False, 'nu': per_u, 'ns': per_s} for _ in range(max(n - 1, 1))]
    return specs


def run(spec, ctx):
    if spec['fixed']:
        case = {'kind': 'universe', 'which': 'fixed', 'size': len(universe())}
        ctx.case(case, nontrivial=True)
        ctx.run_case(case, run_case, shrink=False)
    for i in range(spec['nu']):
        rng = random.Random('C07u/%d/%d/%d' % (spec['seed'], spec['shard'], i))
        terms = [rand_value(rng) for _ in range(40)]
        case = {'kind': 'universe', 'which': 'random', 'terms': terms}
        ctx.case(case, nontrivial=True, sample=(i == 0 and spec['shard'] == 1))
        ctx.run_case(case, run_case, shrink=False)
    for i in range(spec['ns']):
        rng = random.Random('C07s/%d/%d/%d' % (spec['seed'], spec['shard'], i))
        case = gen_sort_case(rng) if rng.random() < 0.5 else gen_dsort_case(rng)
        ctx.case(case)
        ctx.run_case(case, run_case)
        if ctx.full():
            break


def replay(case, ctx):
    ctx.case(case)
    ctx.run_case(case, run_case, shrink=False)
