"""C05 - Calendar business-day arithmetic agrees with day-by-day counting.

Monitor shape: brute-force calendar (explicit list of business days obtained by walking one day at a time) as reference model;
registration histories (register / re-register / fetch by key) so that stale state left by an earlier registration shows;
step budgets on the adjust/add loops."""
import numpy as np
import random, datetime
from .. import core
from ..core import HarnessError, StepBudget

ID = 'C05'
TITLE = 'Calendar business-day arithmetic = day-by-day counting'
LEVEL = 'exploration'
TECHNIQUE = 'runtime monitoring: brute-force day-counting calendar model + registration histories (register / re-register / fetch by key) + step budgets on the adjust/add loops'
LEVEL_TEXT = 'Held for every day of the inner range x n (thorough: all n in [-40,40]) on the configurations explored. A check says held on K observed executions, never verified.'
LEVEL_NOTE = "Trusted: the day-walking model; dates stay inside the calendar range; drange claimed for '1b' with t0<=t1."
RULE = ('a case is a registration history of 1-3 calendar configurations (holiday density 0-35% with forced multi-day runs across month ends and next to weekends, '
        'weekend in {Sat-Sun, Fri-Sat, Sun, none}, adj f/p/m, 2-year range) on 1-2 registry keys; after each registration the calendar fetched BY KEY is probed on every day of '
        'the inner range (150-day margins) x n (quick: 13 values incl. +-40; thorough: every n in [-40,40]); non-trivial = a configuration with a holiday run crossing a month end '
        'next to a weekend, or a re-registration of a key whose index was already populated; distinct = canonical hash of the history')
RULE_ALSO = "; added by the coverage audit and round 8: '+0b' / '-0b' / day-then-business-day tenors through Calendar.dt_bump, adjust of lists / tuples / dicts, the very first call on a fresh calendar (bdays(add) or a short drange '1b' between non-business days), closures of 33-55 days, one holiday list edited in place and registered again"
ASSUMPTIONS = ['dates stay inside the calendar range (150-day margins); leaving it is outside the statement', 'holidays are supplied as midnight datetimes',
               "Calendar.drange is claimed for '1b' only, with t0 <= t1"]
DAY = datetime.timedelta(1)
_COUNTER = [0]


def required(tier):
    return {'is_bday': 2000, 'adjust_fpm': 2000, 'add_nth_bday': 5000, 'bdays_inverse_of_add': 5000, 'add_roundtrip': 2000, 'add_path_agreement': 3000,
            'drange_1b': 100, 'registry_reflects_last_registration': 20}


class Model(object):
    def __init__(self, cfg):
        self.t0 = datetime.datetime.fromisoformat(cfg['t0'])
        self.t1 = datetime.datetime.fromisoformat(cfg['t1'])
        self.weekend = set(cfg['weekend'])
        self.hol = set(datetime.datetime.fromisoformat(h) for h in cfg['holidays'])
        self.adj = cfg['adj']
        self.bd = []
        self.idx = {}
        t = self.t0
        while t <= self.t1:
            if self.is_b(t):
                self.idx[t] = len(self.bd)
                self.bd.append(t)
            t += DAY

    def is_b(self, t):
        return t.weekday() not in self.weekend and t not in self.hol

    def adjust(self, t, adj):
        a = adj[0]
        if a == 'f':
            while not self.is_b(t):
                t += DAY
            return t
        if a == 'p':
            while not self.is_b(t):
                t -= DAY
            return t
        f = self.adjust(t, 'f')
        return f if f.month == t.month else self.adjust(t, 'p')


def probe(ctx, cal, m, cfg, ns, stride, rng, sb, light=False):
    from pyg_base import Calendar
    lo = m.t0 + DAY * 150
    hi = m.t1 - DAY * 150
    days = []
    t = lo
    while t <= hi:
        days.append(t); t += DAY
    if stride > 1:
        keep = [d for i, d in enumerate(days) if i % stride == 0 or not m.is_b(d) and rng.random() < 0.5]
        days = keep
    if light:
        days = rng.sample(days, min(12, len(days)))
    mon = ctx.monitors
    adj = m.adj
    for t in days:
        tod = t + datetime.timedelta(hours=rng.randrange(24), minutes=rng.randrange(60))
        sb.reset()
        xs_ = (t, tod)
        if rng.random() < 0.15:
            import pandas as pd
            # the day as a pandas Timestamp read from a nanosecond clock, or as a date: still that day
            xs_ = (t, tod, pd.Timestamp(tod) + pd.Timedelta(rng.choice([1, 250, 999]), 'ns'), t.date())
        for x in xs_:
            mon['is_bday'] += 1
            b, h = cal.is_bday(x), cal.is_holiday(x)
            if b != m.is_b(t) or h == b:
                ctx.fail('is_bday', 'is_bday(%s)=%s is_holiday=%s, model %s; cfg=%s' % (x, b, h, m.is_b(t), _brief(cfg)))
                return False
        for a in ('f', 'p', 'm', 'following', 'previous', None):
            mon['adjust_fpm'] += 1
            sb.reset()
            got = cal.adjust(tod if a == 'p' else t, a)
            exp = m.adjust(t, a or adj)
            if got != exp:
                ctx.fail('adjust_fpm', 'adjust(%s, %r) = %s, nearest-business-day walk gives %s; cfg=%s' % (t, a, got, exp, _brief(cfg)))
                return False
        for a in ((None, adj), ('f', 'f'), ('p', 'p')) if not light else ((None, adj),):
            base = m.idx[m.adjust(t, a[1])]
            for n in ns:
                if not (0 <= base + n < len(m.bd)) or not (0 <= base + n - 1) or not (base + n + 1 < len(m.bd)):
                    if n and (base + n < 0 or base + n >= len(m.bd)):
                        # the n-th business day lies outside what the calendar knows: refusing is fine, answering with a day on the wrong side of t is not
                        sb.reset()
                        mon['add_nth_bday'] += 1
                        try:
                            got = cal.add(t, n, adj=a[0]) if a[0] else cal.add(t, n)
                        except Exception:
                            got = None
                        if got is not None and ((n < 0 and not got < m.bd[base]) or (n > 0 and not got > m.bd[base])):
                            ctx.fail('add_nth_bday', 'add(%s, %d, adj=%r) = %s lies on the wrong side of adjust(t)=%s (the %d-th business day is beyond the calendar range); cfg=%s' % (t, n, a[0], got, m.bd[base], n, _brief(cfg)))
                            return False
                    continue
                exp = m.bd[base + n]
                if not (lo - DAY * 140 <= exp <= hi + DAY * 140):
                    continue
                sb.reset()
                mon['add_nth_bday'] += 1
                n_arg = np.int64(n) if (n + t.day) % 5 == 0 else n       # the count as a numpy integer now and then
                got = cal.add(t, n_arg, adj=a[0]) if a[0] else cal.add(t, n_arg)
                if got != exp:
                    ctx.fail('add_nth_bday', 'add(%s, %d, adj=%r) = %s, counting business days from adjust(t)=%s gives %s; cfg=%s' % (t, n, a[0], got, m.bd[base], exp, _brief(cfg)))
                    return False
                mon['bdays_inverse_of_add'] += 1
                bd = cal.bdays(t, got, adj=a[0]) if a[0] else cal.bdays(t, got)
                if bd != n:
                    ctx.fail('bdays_inverse_of_add', 'bdays(%s, add(t,%d)=%s, adj=%r) = %s; cfg=%s' % (t, n, got, a[0], bd, _brief(cfg)))
                    return False
                if m.is_b(t):
                    mon['add_roundtrip'] += 1
                    back = cal.add(got, -n)
                    if back != t:
                        ctx.fail('add_roundtrip', 'add(add(%s,%d),%d) = %s; cfg=%s' % (t, n, -n, back, _brief(cfg)))
                        return False
                if n != 0:
                    mon['add_path_agreement'] += 1
                    s = 1 if n > 0 else -1
                    via = cal.add(cal.add(t, n - s, adj=a[0]) if a[0] else cal.add(t, n - s), s)
                    if via != got:
                        ctx.fail('add_path_agreement', 'add(%s,%d)=%s but add(add(t,%d),%d)=%s (adj=%r); cfg=%s' % (t, n, got, n - s, s, via, a[0], _brief(cfg)))
                        return False
        if rng.random() < 0.2:
            n = rng.choice(ns)
            base = m.idx[m.adjust(t, adj)]
            if 1 <= base + n < len(m.bd) - 1:
                mon['calendar_dt_bump_b'] += 1
                got = cal.dt_bump(t, '%db' % n)
                if got != m.bd[base + n]:
                    ctx.fail('calendar_dt_bump_b', "cal.dt_bump(%s,'%db') = %s, model %s; cfg=%s" % (t, n, got, m.bd[base + n], _brief(cfg)))
                    return False
                mon['clock_difference'] += 1
                if cal.clock(got) - cal.clock(t) != n:
                    ctx.fail('clock_difference', 'clock(add(t,%d)) - clock(t) = %s; cfg=%s' % (n, cal.clock(got) - cal.clock(t), _brief(cfg)))
                    return False
            # other spellings of the same arithmetic: '+0b' / '-0b' are adjust following / previous, a compound tenor applies its parts left to right,
            # a list / tuple / dict of dates is adjusted member by member
            mon['calendar_dt_bump_b'] += 1
            sb.reset()
            g0, g1 = cal.dt_bump(t, '+0b'), cal.dt_bump(t, '-0b')
            if g0 != m.adjust(t, 'f') or g1 != m.adjust(t, 'p'):
                ctx.fail('calendar_dt_bump_b', "cal.dt_bump(%s,'+0b') = %s, '-0b' = %s; adjust following / previous give %s / %s; cfg=%s" % (t, g0, g1, m.adjust(t, 'f'), m.adjust(t, 'p'), _brief(cfg)))
                return False
            k = rng.choice([1, 2, 3, 7, -1, -2, -3])
            if 1 <= base + n < len(m.bd) - 1:
                mid = t + DAY * k
                b2 = m.idx[m.adjust(mid, adj)]
                if lo <= mid <= hi and 1 <= b2 + n < len(m.bd) - 1:
                    mon['calendar_dt_bump_b'] += 1
                    tenor = '%dd%db' % (k, n)
                    got = cal.dt_bump(t, tenor)
                    if got != m.bd[b2 + n]:
                        ctx.fail('calendar_dt_bump_b', "cal.dt_bump(%s,%r) = %s, %d days then %d business days gives %s; cfg=%s" % (t, tenor, got, k, n, m.bd[b2 + n], _brief(cfg)))
                        return False
            others = [t + DAY * j for j in (0, 1, 2, 5)]
            others = [o for o in others if lo <= o <= hi]
            for a in ('f', 'p', None):
                mon['adjust_fpm'] += 1
                sb.reset()
                exp = [m.adjust(o, a or adj) for o in others]
                gl, gt, gd = cal.adjust(list(others), a), cal.adjust(tuple(others), a), cal.adjust({str(i): o for i, o in enumerate(others)}, a)
                if gl != exp or gt != tuple(exp) or gd != {str(i): e for i, e in enumerate(exp)} or type(gl) is not list or type(gt) is not tuple or type(gd) is not dict:
                    ctx.fail('adjust_fpm', 'adjust of a list / tuple / dict of dates %s with %r = %s / %s / %s, member by member gives %s; cfg=%s' % (others, a, gl, gt, gd, exp, _brief(cfg)))
                    return False
    # the first day of the range, when it is a holiday: a holiday like any other
    if not light and m.t0 in m.hol:
        mon['is_bday'] += 1
        b_, h_ = cal.is_bday(m.t0), cal.is_holiday(m.t0)
        if b_ or not h_:
            ctx.fail('is_bday', 'the first day of the range %s is a registered holiday: is_bday=%s is_holiday=%s; cfg=%s' % (m.t0, b_, h_, _brief(cfg)))
            return False
        mon['adjust_fpm'] += 1
        sb.reset()
        got_ = cal.adjust(m.t0, 'f')
        if got_ != m.adjust(m.t0, 'f'):
            ctx.fail('adjust_fpm', "adjust(%s, 'f') from the first day of the range (a holiday) = %s, model %s; cfg=%s" % (m.t0, got_, m.adjust(m.t0, 'f'), _brief(cfg)))
            return False
        ctx.cls('first_day_of_range_is_a_holiday')
    # drange '1b'
    for _ in range(3 if light else 25):
        a, b = sorted(rng.sample(days, 2)) if len(days) >= 2 else (days[0], days[0])
        if rng.random() < 0.15:
            b = a
        sb.reset()
        mon['drange_1b'] += 1
        st, got = ctx.call(cal.drange, a, b, '1b')
        i0, i1 = m.idx[m.adjust(a, adj)], m.idx[m.adjust(b, adj)]
        exp = m.bd[i0:i1 + 1]
        if st != 'ok' or list(got) != exp:
            ctx.fail('drange_1b', "cal.drange(%s, %s, '1b') = %s..., model %s...; cfg=%s" % (a, b, got[:6] if st == 'ok' else got, exp[:6], _brief(cfg)))
            return False
        if isinstance(got, list) and _ % 5 == 0:
            # the list belongs to the caller: reversed and appended to, it must not show in what the same question gets next time
            got.reverse(); got.append('edited-by-the-caller')
            mon['drange_1b'] += 1
            st, again = ctx.call(cal.drange, a, b, '1b')
            if st != 'ok' or list(again) != exp:
                ctx.fail('drange_1b', "cal.drange(%s, %s, '1b') asked again after the caller edited the first answer = %s..., model %s...; cfg=%s" % (a, b, again[:6] if st == 'ok' else again, exp[:6], _brief(cfg)))
                return False
    # the start given as a bump: 'the business days since N business days before t1' (documented spelling of Calendar.drange)
    for _ in range(0 if light else 6):
        b_ = rng.choice(days)
        N = rng.choice([1, 2, 3, 5, 8, 13])
        i1 = m.idx[m.adjust(b_, adj)]
        if i1 - N < 0:
            continue
        sb.reset()
        mon['drange_1b'] += 1
        st, got = ctx.call(cal.drange, '-%db' % N, b_, '1b')
        exp = m.bd[i1 - N:i1 + 1]
        if st != 'ok' or list(got) != exp:
            ctx.fail('drange_1b', "cal.drange('-%db', %s, '1b') = %s..., model (the %d business days before adjust(t1) up to it) %s...; cfg=%s" % (N, b_, got[:8] if st == 'ok' else got, N, exp[:8], _brief(cfg)))
            return False
    # the edges of the range: the n-th business day may lie outside what the calendar knows - refusing is fine, a day on the wrong side of t is not
    if not light and len(m.bd) > 60:
        for i in (0, 1, 3, 7, len(m.bd) - 1, len(m.bd) - 2, len(m.bd) - 5):
            t = m.bd[i]
            for n in (-2, -5, -9, -40, 2, 4, 5, 9, 40, -4):
                sb.reset()
                mon['add_nth_bday'] += 1
                try:
                    got = cal.add(t, n)
                except Exception as e_:
                    if 0 <= i + n < len(m.bd):
                        # the n-th business day lies inside the range (possibly on its very last day): there is nothing to refuse
                        ctx.fail('add_nth_bday', 'add(%s, %d) raised %s although business day #%d of %d lies inside the calendar range [%s, %s]; cfg=%s' % (t, n, core.exc_str(e_), i + n, len(m.bd), m.t0.date(), m.t1.date(), _brief(cfg)))
                        return False
                    continue
                if 0 <= i + n < len(m.bd):
                    okk = got == m.bd[i + n]
                else:
                    okk = (got < t) if n < 0 else (got > t)
                if not okk:
                    ctx.fail('add_nth_bday', 'add(%s, %d) = %s near the edge of the calendar range [%s, %s] (business day #%d of %d); cfg=%s' % (t, n, got, m.t0.date(), m.t1.date(), i, len(m.bd), _brief(cfg)))
                    return False
    return True


def _brief(cfg):
    return {'weekend': cfg['weekend'], 'adj': cfg['adj'], 't0': cfg['t0'][:10], 'nhol': len(cfg['holidays']), 'key': cfg.get('key')}


def run_case(case, ctx):
    if case.get('kind') == 'light':
        return run_registry_light(case, ctx)
    from pyg_base import Calendar, calendar
    from pyg_base import _drange
    _COUNTER[0] += 1
    rng = random.Random(case['probe_seed'])
    ns = case['ns']
    reg = {}
    codes = [Calendar.add, Calendar.adjust]
    populated = set()
    with StepBudget(codes, 30000) as sb:
        for si, step in enumerate(case['steps']):
            cfg = step['cfg']
            key = 'verif-%d-%s' % (_COUNTER[0], step['key'])
            cfg = dict(cfg, key=key)
            hol = [datetime.datetime.fromisoformat(h) for h in cfg['holidays']]
            t0, t1 = datetime.datetime.fromisoformat(cfg['t0']), datetime.datetime.fromisoformat(cfg['t1'])
            route = step['route']
            if route == 'calendar':
                calendar(key, hol, cfg['weekend'], t0, t1)
                cfg['adj'] = 'm'
            elif route == 'object':
                calendar(Calendar(key, holidays=hol, weekend=cfg['weekend'], t0=t0, t1=t1, adj=cfg['adj']))
            elif route == 'object_kw' and key in reg:
                # the registered calendar re-registered through its own object with new holidays / weekend (possibly none at all); its range stays
                old = reg[key]
                t0, t1 = datetime.datetime.fromisoformat(old['t0']), datetime.datetime.fromisoformat(old['t1'])
                hol = [h for h in hol if t0 <= h <= t1]
                if step.get('clear'):
                    hol = []
                cfg = dict(cfg, t0=old['t0'], t1=old['t1'], holidays=[h.isoformat() for h in hol], adj='m')
                calendar(calendar(key), holidays=hol, weekend=cfg['weekend'])
                ctx.cls('reregistered_through_its_object')
            elif route == 'object_kw':
                calendar(key, hol, cfg['weekend'], t0, t1)
                cfg['adj'] = 'm'
            else:
                raise HarnessError(route)
            if key in populated:
                ctx.cls('reregistered_after_index_populated')
                ctx.mark_nontrivial(case)
            reg[key] = cfg
            cal = calendar(key)   # fetched by key
            m = Model(cfg)
            ctx.monitors['registry_reflects_last_registration'] += 1
            if set(cal.holidays.keys()) != m.hol or set(cal.weekend) != m.weekend or cal.t0 != m.t0 or cal.t1 != m.t1:
                ctx.fail('registry_reflects_last_registration', 'calendar(%r) holds %d holidays weekend %s; last registered %d holidays weekend %s' % (key, len(cal.holidays), cal.weekend, len(m.hol), cfg['weekend']))
                return
            # the very first question put to a freshly registered calendar (nothing has built its index yet): bdays(t, add(t, +-1)) from a non-business day
            lo_, hi_ = m.t0 + DAY * 150, m.t1 - DAY * 150
            nonb = [d_ for d_ in (lo_ + DAY * i_ for i_ in range((hi_ - lo_).days)) if not m.is_b(d_)]
            if nonb:
                ends = [d_ for d_ in nonb if (d_ + DAY * 3).month != d_.month or (d_ - DAY * 3).month != d_.month]
                t_ = rng.choice(ends) if ends and rng.random() < 0.5 else rng.choice(nonb)
                n_ = rng.choice([1, -1])
                sb.reset()
                if rng.random() < 0.5:
                    # ... or a short drange '1b' between two non-business days (or from one to a few days on) as the first question
                    u_ = t_ + DAY * rng.choice([0, 1, 2, 3, 5, 9, 16, 30])
                    near_ = [d_ for d_ in nonb if t_ <= d_ <= t_ + DAY * 30]
                    if rng.random() < 0.6 and near_:
                        u_ = rng.choice(near_)
                    adj_ = cfg['adj']
                    i0_, i1_ = m.idx[m.adjust(t_, adj_)], m.idx[m.adjust(u_, adj_)]
                    exp_ = m.bd[i0_:i1_ + 1]
                    ctx.monitors['drange_1b'] += 1
                    st_, got_ = ctx.call(cal.drange, t_, u_, '1b')
                    if st_ != 'ok' or list(got_) != exp_:
                        ctx.fail('drange_1b', "first call on a freshly registered calendar: drange(%s, %s, '1b') = %s %r, model %s; cfg=%s" % (t_, u_, st_, got_ if st_ != 'ok' else got_[:8], exp_[:8], _brief(cfg)))
                        return
                    ctx.cls('first_call_on_fresh_calendar:drange')
                else:
                    ctx.monitors['bdays_inverse_of_add'] += 1
                    st_, got_ = ctx.call(lambda: cal.bdays(t_, cal.add(t_, n_)))
                    if st_ != 'ok' or got_ != n_:
                        ctx.fail('bdays_inverse_of_add', 'first call on a freshly registered calendar: bdays(%s, add(t, %d)) = %s %r; cfg=%s' % (t_, n_, st_, got_, _brief(cfg)))
                        return
                    ctx.cls('first_call_on_fresh_calendar')
            if not probe(ctx, cal, m, cfg, ns, case['stride'], rng, sb):
                return
            populated.add(key)
            for k2, cfg2 in reg.items():       # other keys still reflect their own last registration
                if k2 != key:
                    ctx.monitors['registry_reflects_last_registration'] += 1
                    if not probe(ctx, calendar(k2), Model(cfg2), cfg2, ns[:5], 1, rng, sb, light=True):
                        return
            ctx.cls('weekend:%s' % cfg['weekend'])
            ctx.cls('adj:%s' % cfg['adj'])
            if step.get('run_crosses_month_end'):
                ctx.cls('holiday_run_across_month_end')
                ctx.mark_nontrivial(case)
        ctx.maxstat('max_steps_in_add_adjust', sb.count)
    for key in reg:
        _drange.calendars.pop(key, None)


def run_registry_light(case, ctx):
    """registrations that give only holidays (and maybe a weekend): default 1900-2300 range, loop path only (no index is built)"""
    from pyg_base import calendar
    from pyg_base import _drange
    _COUNTER[0] += 1
    key = 'verif-light-%d' % _COUNTER[0]
    base = datetime.datetime(2021, 3, 1)
    try:
        shared = None
        for step in case['steps']:
            hol = [base + DAY * i for i in step['hol']]
            if case.get('same_list'):
                # the caller keeps ONE holiday list, edits it in place and registers it again: the key reflects the list as it is now
                if shared is None:
                    shared = list(hol)
                else:
                    shared[:] = hol
                hol = shared
                ctx.cls('registry_light:same_list_edited_in_place')
            wk = step.get('weekend')
            if step['how'] == 'positional':
                cal = calendar(key, hol) if wk is None else calendar(key, hol, wk)
            else:
                cal = calendar(key, holidays=hol) if wk is None else calendar(key, holidays=hol, weekend=wk)
            got = calendar(key)
            weekend = set([5, 6] if wk is None else wk)
            hs = set(hol)
            ctx.monitors['registry_reflects_last_registration'] += 1
            isb = lambda t: t.weekday() not in weekend and t not in hs
            for i in range(-3, 40):
                t = base + DAY * i
                if got.is_bday(t) != isb(t):
                    ctx.fail('registry_reflects_last_registration', 'after registering %r with holidays %s (weekend %s) as step %d, calendar(key).is_bday(%s) = %s' % (key, step['hol'], wk, case['steps'].index(step), t.date(), got.is_bday(t)))
                    return
                f = t
                while not isb(f):
                    f += DAY
                if got.adjust(t, 'f') != f:
                    ctx.fail('registry_reflects_last_registration', 'adjust(%s, f) = %s expected %s after step %d' % (t.date(), got.adjust(t, 'f'), f, case['steps'].index(step)))
                    return
                nxt = f + DAY
                while not isb(nxt):
                    nxt += DAY
                if got.add(t, 1, adj='f') != nxt:
                    ctx.fail('registry_reflects_last_registration', 'add(%s, 1, f) = %s expected %s after step %d' % (t.date(), got.add(t, 1, adj='f'), nxt, case['steps'].index(step)))
                    return
        ctx.mark_nontrivial(case)
        ctx.cls('registry_light')
    finally:
        _drange.calendars.pop(key, None)


def gen_cfg(rng):
    y = rng.choice([1999, 2011, 2020, 2023, 2096, 2100])
    t0 = datetime.datetime(y, 1, 1)
    t1 = datetime.datetime(y + 1, 12, 31)
    weekend = rng.choice([[5, 6], [5, 6], [4, 5], [6], []])
    dens = rng.choice([0, 0.02, 0.05, 0.15, 0.35])
    hol = set()
    t = t0
    while t <= t1:
        if rng.random() < dens:
            hol.add(t)
        t += DAY
    crosses = False
    for _ in range(rng.choice([0, 2, 4, 6])):
        # forced runs: across a month end, adjacent to the weekend
        mth = rng.randint(1, 12); yy = y + rng.randint(0, 1)
        first = datetime.datetime(yy + (mth == 12), mth % 12 + 1, 1)
        start = first - DAY * rng.randint(1, 4)
        ln = rng.randint(2, 7)
        for i in range(ln):
            hol.add(start + DAY * i)
        crosses = True
    if rng.random() < 0.25:
        hol.add(t0)          # the first day of the calendar's range is itself a holiday (1 January)
    if rng.random() < 0.15:
        # a closure of more than a month (a market shut for weeks on end): one run of consecutive non-business days
        start = t0 + DAY * rng.randrange(200, 450)
        for i in range(rng.randint(33, 55)):
            hol.add(start + DAY * i)
    for _ in range(rng.choice([0, 3])):
        d = t0 + DAY * rng.randrange((t1 - t0).days)
        while d.weekday() != 4:
            d += DAY
        hol.add(d); hol.add(d + DAY * 3)   # friday + monday around a weekend
    hol = sorted(h for h in hol if t0 <= h <= t1)
    order = rng.random()
    if order < 0.15:
        hol = hol[::-1]                    # a newest-first holiday table
    elif order < 0.3:
        rng.shuffle(hol)                   # holidays in no particular order (grouped by name, built from a set, ...)
    return {'t0': t0.isoformat(), 't1': t1.isoformat(), 'weekend': weekend, 'holidays': [h.isoformat() for h in hol], 'adj': rng.choice(['f', 'p', 'm', 'm'])}, crosses


def gen_case(rng, tier):
    nsteps = rng.choice([1, 2, 2, 3])
    keys = ['A', 'B']
    steps = []
    for i in range(nsteps):
        cfg, crosses = gen_cfg(rng)
        steps.append({'key': 'A' if i == 0 or rng.random() < 0.7 else 'B', 'route': rng.choice(['calendar', 'calendar', 'object', 'object_kw']), 'clear': rng.random() < 0.4, 'cfg': cfg, 'run_crosses_month_end': crosses and cfg['weekend'] != []})
    if tier == 'thorough':
        ns = list(range(-40, 41)); stride = 1
    else:
        ns = [-40, -13, -7, -3, -2, -1, 0, 1, 2, 3, 5, 11, 40]; stride = 5
    return {'steps': steps, 'ns': ns, 'stride': stride, 'probe_seed': rng.randrange(10 ** 9)}


def plan(tier, seed, n):
    per = 4 if tier == 'quick' else 12
    return [{'n': per} for _ in range(n)]


def gen_light(rng):
    steps = []
    for i in range(rng.randint(2, 4)):
        hol = sorted(rng.sample(range(0, 36), rng.choice([0, 0, 1, 3, 8])))
        steps.append({'hol': hol, 'weekend': rng.choice([None, None, [5, 6], [4, 5], [6], []]), 'how': rng.choice(['positional', 'keyword'])})
    case = {'kind': 'light', 'steps': steps}
    if rng.random() < 0.4:
        case['same_list'] = True
        if rng.random() < 0.7:
            for st_ in steps[1:]:
                st_['weekend'], st_['how'] = steps[0]['weekend'], steps[0]['how']      # only the list changed between the registrations
    return case


def run(spec, ctx):
    for i in range(40 if spec['tier'] == 'quick' else 600):
        rng = random.Random('C05L/%d/%d/%d' % (spec['seed'], spec['shard'], i))
        case = gen_light(rng)
        ctx.case(case)
        ctx.run_case(case, run_case)
        if ctx.full():
            return
    for i in range(spec['n']):
        rng = random.Random('C05/%d/%d/%d' % (spec['seed'], spec['shard'], i))
        case = gen_case(rng, spec['tier'])
        ctx.case(case, sample=False)
        if len(ctx.samples) < 1:
            brief = {'steps': [dict(s, cfg=dict(s['cfg'], holidays=s['cfg']['holidays'][:8] + ['... %d in total' % len(s['cfg']['holidays'])])) for s in case['steps']], 'ns': case['ns'], 'stride': case['stride']}
            ctx.samples.append(brief)
        ctx.run_case(case, run_case)
        if ctx.full():
            break


def replay(case, ctx):
    ctx.case(case)
    ctx.run_case(case, run_case, shrink=False)
