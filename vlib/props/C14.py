"""C14 - eq is a NaN-aware, type-strict equivalence on values, containers and pandas.

Monitor shape: law monitors on the real eq over a universe (all ordered pairs: total / boolean / symmetric; clone-reflexivity with
fresh NaN objects; all triples transitive via the cached matrix; container-kind strictness; agreement with == on NaN-free plain
values) plus random nestings with targeted one-point mutations."""
import random, datetime
import numpy as np
from .. import core, codec
from ..core import HarnessError

ID = 'C14'
TITLE = 'eq is a NaN-aware, type-strict equivalence'
LEVEL = 'exploration'
TECHNIQUE = 'runtime monitoring: law monitors (total/boolean, symmetric, clone-reflexive, transitive over all triples, kind-strict, agrees with ==) + structural reference model of the statement'
LEVEL_TEXT = 'All ordered pairs and triples of a ~155 value universe plus random nested universes with one-point mutations. A check says held on K observed executions, never verified.'
LEVEL_NOTE = 'Trusted: model_eq in the harness; extension arrays and tz-aware stamps are outside the universe. One known finding (date-like transitivity) is reported as KNOWN-FINDING.'
RULE = ('fixed universe (~150 scalars, numpy scalars, timestamps, empty/non-empty containers of each kind, arrays of several dtypes/shapes incl. 0-d, 0-size and '
        'equal-length-different-shape, Series/DataFrames differing in index/columns/length, nestings): ALL ordered pairs and ALL triples; plus random universes of 30 nested values '
        'with structural clones and one-point mutations; non-trivial = a universe, or a random pair of different container kinds, or a structure with NaN at depth >= 2; distinct = canonical hash')
RULE_ALSO = '; added by the coverage audit and round 8: NaT scalars (datetime64 / timedelta64) alone and in containers, float32 / float / float64 of one decimal, Series on MultiIndexes of different depth'
ASSUMPTIONS = ['dict keys are strings', 'pandas extension arrays, timezone-aware stamps and object-dtype arrays holding containers are outside the universe',
               "'plain' for the agreement-with-== law means builtin None/bool/int/float/str/date/datetime and list/tuple/dict nestings of them, NaN-free, compared between values of the same structure of types"]


def required(tier):
    return {'eq_total_boolean': 20000, 'eq_symmetric': 10000, 'eq_clone_reflexive': 150, 'eq_transitive_triples': 1000000, 'eq_kind_strict': 5000, 'eq_reference_model': 10000, 'eq_operands_unchanged': 100, 'eq_agrees_with_==': 300, 'in_consistent': 100}


def T(*xs):
    return {'$t': list(xs)}


IDX = ['2020-01-01T00:00:00', '2020-01-02T00:00:00', '2020-01-03T00:00:00']


def universe():
    nan = lambda k: {'$nan': k}
    A = lambda dt, x, *sh: {'$arr': [dt, x] + ([list(sh[0])] if sh else [])}
    u = [None, True, False, 0, 1, 2, -1, 0.0, 1.0, 2.5, nan(0), nan('np'), {'$inf': 1}, '', 'a', 'b', 'ab', '1',
         {'$np': ['int64', 1]}, {'$np': ['int32', 1]}, {'$np': ['float64', 1.0]}, {'$np': ['float32', 2.5]}, {'$np': ['float32', nan(1)]}, {'$np': ['float64', nan(2)]},
         {'$np': ['bool_', True]}, {'$np': ['str_', 'a']},
         {'$date': '2020-01-01'}, {'$dt': '2020-01-01T00:00:00'}, {'$dt': '2020-01-01T12:00:00'}, {'$pdts': '2020-01-01T00:00:00'}, {'$pdts': '2020-01-01T12:00:00'},
         {'$np': ['datetime64[D]', '2020-01-01']}, {'$np': ['datetime64[ns]', '2020-01-01T12:00:00']}, {'$td': 86400.0},
         [], T(), {}, {'$Dict': {}}, {'$dictattr': {}},
         [1], T(1), [1.0], [2], [1, 2], T(1, 2), [2, 1], [1, 2, 3], [nan(3)], T(nan(4)), [nan(5), 1], [None], ['a'], [[1, 2]], [T(1, 2)], T([1, 2]), [[1], [2]], [[1, nan(6)]], T(T(1, nan(7)), 2),
         {'a': 1}, {'a': 2}, {'a': 1.0}, {'b': 1}, {'a': 1, 'b': 2}, {'b': 2, 'a': 1}, {'a': nan(8)}, {'a': [1, 2]}, {'a': T(1, 2)}, {'a': [1, nan(9)]}, {'a': {'b': nan(10)}}, {'a': {'b': 1}}, {'a': None}, {'a': None, 'b': 1}, {'b': 1, 'c': None},
         {'$Dict': {'a': 1}}, {'$dictattr': {'a': 1}}, {'$Dict': {'a': 1, 'b': 2}}, {'a': {'$Dict': {'b': 1}}},
         A('int64', [1]), A('int64', [1, 2]), A('float64', [1.0, 2.0]), A('float64', [1.0, nan(11)]), A('float64', [nan(12), 1.0]), A('int64', [2, 1]), A('int64', [1, 2, 3]), A('int64', []), A('float64', []),
         A('int64', 1), A('float64', 1.0), A('float64', nan(13)),
         A('int64', [[1, 2], [3, 4]]), A('int64', [[1, 2, 3, 4]]), A('int64', [[1], [2], [3], [4]]), A('int64', [1, 2, 3, 4]), A('float64', [[1.0, 2.0], [3.0, nan(14)]]), A('int64', [[1, 2, 3], [4, 5, 6]]), A('int64', [[1, 2, 3, 4], [5, 6, 7, 8]]),
         A('int64', [[1, 2], [1, 2]]), A('int64', [], (0, 3)), A('int64', [], (0, 2)), A('int64', [], (2, 0)),
         A('bool', [True, False]), A('<U1', ['a', 'b']), A('<U1', ['a', 'a']), A('object', [1, 'a']), A('object', [None]), A('object', [None, None]), A('int64', [1000000, 2]), A('int64', [1000001, 2]), A('float64', [100000.0]), A('float64', [100000.5]),
         {'$ts': [IDX, [1.0, 2.0, 3.0]]}, {'$ts': [IDX, [1.0, 2.0, nan(15)]]}, {'$ts': [IDX[:2], [1.0, 2.0]]}, {'$ts': [IDX[1:], [1.0, 2.0]]}, {'$ts': [IDX, [1.0, 1.0, 1.0]]}, {'$ts': [[], []]},
         {'$sr': [[0, 1], [1, 1]]}, {'$sr': [[0, 1], [1.0, 2.0]]}, {'$sr': [['x', 'y'], [1.0, 2.0]]}, {'$sr': [[0, 1, 2], [1.0, 2.0, 3.0]]},
         {'$df': [IDX, ['a', 'b'], [[1.0, 2.0], [3.0, 4.0], [5.0, 6.0]]]}, {'$df': [IDX, ['a', 'c'], [[1.0, 2.0], [3.0, 4.0], [5.0, 6.0]]]}, {'$df': [IDX, ['b', 'a'], [[2.0, 1.0], [4.0, 3.0], [6.0, 5.0]]]},
         {'$df': [IDX, ['a', 'b'], [[1.0, 2.0], [3.0, nan(16)], [5.0, 6.0]]]}, {'$df': [IDX[:2], ['a', 'b'], [[1.0, 2.0], [3.0, 4.0]]]}, {'$df': [IDX, ['a'], [[1.0], [2.0], [3.0]]]}, {'$df': [[], ['a', 'b'], []]}, {'$df': [[], ['a'], []]}, {'$df': [[], ['a', 'c'], []]}, {'$frame': [[1, 2], [], [[], []]]}, {'$frame': [[3, 4], [], [[], []]]}, {'$sr': [[], [], 'float64']},
         {'$frame': [[0, 1], ['a'], [[1], [1]]]}, {'$frame': [[0, 1], [0], [[1], [1]]]},
         [{'$ts': [IDX, [1.0, 2.0, 3.0]]}], {'a': {'$ts': [IDX, [1.0, 2.0, nan(17)]]}}, {'a': A('float64', [1.0, nan(18)])}, [A('int64', [1, 2]), 1], T(A('int64', [1, 2]), 1), {'a': A('int64', [1, 2]), 'b': [nan(19)]}]
    # integers that round to one double, as scalars and inside every container kind
    B = 2 ** 53
    u += [B, B + 1, float(B), {'$np': ['int64', B + 1]}, {'$np': ['int64', B]}, [B], [B + 1], T(B + 1), {'a': B}, {'a': B + 1}, A('int64', [B, 1]), A('int64', [B + 1, 1]),
          {'$sr': [[0, 1], [B, 1], 'int64']}, {'$sr': [[0, 1], [B + 1, 1], 'int64']}, 1577836800000000000, 1577836800000000001]
    # missing-value markers are values too: None, NaN and NaT differ from one another cell by cell
    u += [{'$sr': [[0, 1], [None, 'a'], 'object']}, {'$sr': [[0, 1], [nan(30), 'a'], 'object']}, {'$sr': [[0, 1], [None, None], 'object']}, {'$sr': [[0, 1], [nan(31), nan(32)], 'object']},
          {'$frame': [[0, 1], ['a'], [[None], [1]], 'object']}, {'$frame': [[0, 1], ['a'], [[nan(33)], [1]], 'object']}, {'$sr': [[0, 1], [nan(34), nan(35)], 'float64']},
          {'$sr': [[0, 1], [None, None], 'datetime64[ns]']}, {'$sr': [[0, 1], [None, '2020-01-01'], 'datetime64[ns]']}]
    # stamps one nanosecond apart are different values, alone, in a list and as the labels of a Series
    u += [{'$pdts': '2020-01-01T00:00:00.000000001'}, {'$pdts': '2020-01-01T00:00:00.000000002'}, [{'$pdts': '2020-01-01T00:00:00.000000001'}], [{'$pdts': '2020-01-01T00:00:00.000000002'}],
          {'$sr': [[{'$pdts': '2020-01-01T00:00:00.000000001'}, {'$pdts': '2020-01-02T00:00:00'}], [1.0, 2.0], 'float64']}, {'$sr': [[{'$pdts': '2020-01-01T00:00:00.000000002'}, {'$pdts': '2020-01-02T00:00:00'}], [1.0, 2.0], 'float64']}]
    # default integer labels with a step (what s.iloc[::2] or a filtered reset_index leaves): the labels are compared, not just where they start and how many there are
    u += [{'$sr': [{'$range': [0, 3, 1]}, [1.0, 2.0, 3.0], 'float64']}, {'$sr': [{'$range': [0, 6, 2]}, [1.0, 2.0, 3.0], 'float64']}, {'$sr': [{'$range': [0, 9, 3]}, [1.0, 2.0, 3.0], 'float64']},
          {'$sr': [[0, 2, 4], [1.0, 2.0, 3.0], 'float64']}, {'$sr': [{'$range': [1, 4, 1]}, [1.0, 2.0, 3.0], 'float64']}, {'$sr': [{'$range': [4, -2, -2]}, [1.0, 2.0, 3.0], 'float64']},
          {'$frame': [{'$range': [0, 4, 2]}, ['a'], [[1.0], [2.0]], 'float64']}, {'$frame': [{'$range': [0, 2, 1]}, ['a'], [[1.0], [2.0]], 'float64']}, {'$frame': [[0, 1], {'$range': [0, 2, 1]}, [[1.0, 2.0], [3.0, 4.0]], 'float64']},
          {'$frame': [[0, 1], {'$range': [0, 4, 2]}, [[1.0, 2.0], [3.0, 4.0]], 'float64']}]
    # labels that differ although their raw values coincide: tz-aware vs naive stamps, stamps vs their epoch-ns integers
    ns = [1577836800000000000, 1577923200000000000, 1578009600000000000]
    u += [{'$tsz': [IDX, [1.0, 2.0, 3.0], 'UTC']}, {'$tsz': [IDX, [1.0, 2.0, 3.0], 'US/Eastern']}, {'$sr': [ns, [1.0, 2.0, 3.0], 'float64']}, {'$sr': [[{'$dt': i} for i in IDX], [1.0, 2.0, 3.0], 'float64']}]
    # datetime cells are not their epoch counts, NaT is not None
    u += [A('datetime64[ns]', ['2020-01-01T00:00:00']), A('int64', [1577836800000000000]), A('datetime64[ns]', ['2020-01-01T00:00:00', 'NaT']), A('datetime64[ns]', ['NaT']), A('object', [None]),
          A('timedelta64[s]', [5]), A('int64', [5]), A('datetime64[us]', ['2020-01-01T00:00:00']), A('object', [{'$dt': '2020-01-01T00:00:00'}]),
          {'$sr': [[0], ['2020-01-01T00:00:00'], 'datetime64[ns]']}, {'$sr': [[0], [1577836800000000000], 'int64']}]
    # a NaN label is a label: a series / frame with one still equals its copy
    u += [{'$sr': [[nan(40), 1.0], [1.0, 2.0], 'float64']}, {'$sr': [[2.0, 1.0], [1.0, 2.0], 'float64']}, {'$frame': [[0, 1], [nan(41), 'a'], [[1, 2], [3, 4]]]}, {'$frame': [[0, 1], ['b', 'a'], [[1, 2], [3, 4]]]}]
    # infinities of both signs among the cells
    u += [A('float64', [{'$inf': 1}, {'$inf': -1}, 1.0]), A('float64', [{'$inf': 1}, 1.0, 1.0]), {'$ts': [IDX, [{'$inf': 1}, {'$inf': -1}, 3.0]]}, [A('float64', [{'$inf': -1}, {'$inf': 1}])],
          {'$df': [IDX, ['a', 'b'], [[{'$inf': 1}, 2.0], [3.0, {'$inf': -1}], [5.0, 6.0]]]}]
    # scalars whose == raises inside numpy (out-of-range dates, ints beyond 64 bits against numpy scalars): eq is still a boolean
    u += [{'$np': ['datetime64[D]', '9999-12-31']}, {'$np': ['datetime64[D]', '1000-01-01']}, 2 ** 70, -2 ** 70, [{'$np': ['datetime64[D]', '9999-12-31']}], {'a': 2 ** 70}, {'$np': ['datetime64[ns]', '2020-01-01T00:00:00']}]
    # a missing timestamp / duration is a NaN of its kind: a value holding one equals its structural copy (fresh NaT objects), at any depth
    # labels of several levels: a series on a MultiIndex against same-length series on a flat index / on an index with another number of levels
    u += [{'$srmi': [[['a', 'b'], ['a', 'c']], [1.0, 2.0]]}, {'$srmi': [[['a', 'b'], ['a', 'c']], [1.0, 3.0]]}, {'$srmi': [[['a', 'b', 'x'], ['a', 'c', 'x']], [1.0, 2.0]]}, {'$sr': [['a', 'b'], [1.0, 2.0]]},
          {'$srmi': [[['a', 'b'], ['a', 'c'], ['b', 'c']], [1.0, 2.0, 3.0]]}, {'$srmi': [[['a', 'b', 'c'], ['a', 'c', 'c'], ['b', 'c', 'c']], [1.0, 2.0, 3.0]]}, [{'$srmi': [[['a', 'b'], ['a', 'c']], [1.0, 2.0]]}]]
    # cells that are equal without being the same bits: 0.0 and -0.0, NaNs of another bit pattern
    u += [A('float64', [0.0, 1.0]), A('float64', [-0.0, 1.0]), A('float64', [1.0, {'$nan': 'neg'}]), A('float64', [1.0, {'$nan': 'np'}]), {'$ts': [IDX, [0.0, -0.0, {'$nan': 'neg'}]]}, {'$ts': [IDX, [-0.0, 0.0, {'$nan': 'np'}]]},
          [0.0], [-0.0], {'$nan': 'neg'}, [{'$nan': 'neg'}]]
    # arrays / series long enough for any size-dependent path (block-wise or hashed comparisons): equal copies and ones differing in one late cell
    L = list(range(70))
    u += [A('int64', L), A('int64', L[:-1] + [700]), A('float64', [float(v) for v in L]), A('float64', [float(v) for v in L[:-1]] + [nan(50)]), A('float64', [float(v) for v in L[:-1]] + [nan(51)]),
          {'$sr': [L, [float(v) for v in L], 'float64']}, {'$sr': [L, [float(v) for v in L[:-1]] + [69.5], 'float64']}, L, L[:-1] + [700], {str(v): v for v in L}]
    # one decimal fraction at two precisions next to the python float
    u += [{'$np': ['float32', 0.1]}, 0.1, {'$np': ['float64', 0.1]}, [{'$np': ['float32', 0.1]}], [0.1]]
    NAT, NATD, NATT = {'$np': ['datetime64[ns]', 'NaT']}, {'$np': ['datetime64[D]', 'NaT']}, {'$np': ['timedelta64[s]', 'NaT']}
    u += [NAT, NATD, NATT, [NAT], [NATD, 1], T(NATT), {'a': NAT}, {'a': [NAT, {'$np': ['datetime64[ns]', '2020-01-01T12:00:00']}]}]
    return u


def run_views(case, ctx):
    """two equally shaped windows on ONE buffer: equality is decided by the cells, not by who owns the memory"""
    from pyg_base import eq
    base = np.array(case['base'], dtype=case['dtype']).reshape(case['shape'])
    def win(w):
        v = base
        for ax, (a, b) in enumerate(w):
            sl = [slice(None)] * base.ndim
            sl[ax] = a if b is None else slice(a, b)
            v = v[tuple(sl)] if b is not None else None
            if v is None:
                break
        return v
    def window(w):
        idx = tuple((a if b is None else slice(a, b)) for a, b in w)
        return base[idx]
    x, y = window(case['w1']), window(case['w2'])
    wrap = {'none': lambda v: v, 'list': lambda v: [v, 1], 'dict': lambda v: {'a': v}, 'tuple': lambda v: (0, v)}[case['wrap']]
    exp = x.shape == y.shape and bool(np.array_equal(np.array(x), np.array(y), equal_nan=x.dtype.kind == 'f'))
    for a, b, what in ((x, y, 'views'), (y, x, 'views swapped'), (x, y.copy(), 'view vs copy'), (x.copy(), y.copy(), 'copies')):
        st, r = ctx.call(eq, wrap(a), wrap(b))
        ctx.check('eq_reference_model', st == 'ok' and isbool(r) and bool(r) == exp, lambda: 'eq(%s) of windows %s and %s of one %s buffer %s = %s %r, the cells say %s' % (what, case['w1'], case['w2'], case['dtype'], case['base'], st, r, exp))
    ctx.cls('views:%s' % ('equal' if exp else 'different'))


def run_edited(case, ctx):
    """two arrays of 64+ cells compared, one of them edited in place, compared again: the answer follows the cells as they are NOW
    (nothing remembered about two objects having been equal - or different - may be served again)"""
    from pyg_base import eq
    n = case['n']
    a = np.arange(n, dtype=case['dtype']).reshape(case['shape'])
    b = a.copy()
    wrap = {'none': lambda v: v, 'list': lambda v: [v, 1], 'dict': lambda v: {'a': v}}[case['wrap']]
    seq = []
    st, r = ctx.call(eq, wrap(a), wrap(b)); seq.append(('equal copies', st, r, True))
    flat = a.reshape(-1)
    old = flat[case['pos']]
    flat[case['pos']] = old + 1
    st, r = ctx.call(eq, wrap(a), wrap(b)); seq.append(('after a[%d] += 1' % case['pos'], st, r, False))
    st, r = ctx.call(eq, wrap(b), wrap(a)); seq.append(('swapped', st, r, False))
    flat[case['pos']] = old
    st, r = ctx.call(eq, wrap(a), wrap(b)); seq.append(('after the cell was put back', st, r, True))
    for what, st, r, exp in seq:
        ctx.check('eq_reference_model', st == 'ok' and isbool(r) and bool(r) == exp, lambda: 'two %s arrays of %d cells, %s: eq = %s %r, the cells say %s' % (case['dtype'], n, what, st, r, exp))
    ctx.cls('arrays_edited_between_comparisons')


def gen_views(rng):
    dtype = rng.choice(['int64', 'float64', 'int64'])
    if rng.random() < 0.5:
        n = rng.randint(3, 8)
        base = [rng.choice([1, 2, 3]) for _ in range(n)] if rng.random() < 0.7 else [7] * n
        L = rng.randint(1, n - 1)
        s1, s2 = rng.randint(0, n - L), rng.randint(0, n - L)
        case = {'shape': [n], 'w1': [[s1, s1 + L]], 'w2': [[s2, s2 + L]]}
    else:
        r, c = rng.randint(2, 4), rng.randint(2, 4)
        base = [rng.choice([1, 2]) for _ in range(r * c)]
        if rng.random() < 0.3:
            base = ([rng.choice([1, 2]) for _ in range(c)]) * r       # identical rows: different windows, equal cells
        m = rng.choice(['rows', 'cols', 'rowslice'])
        if m == 'rows':
            w1, w2 = [[rng.randrange(r), None]], [[rng.randrange(r), None]]
        elif m == 'cols':
            w1, w2 = [[0, r], [rng.randrange(c), None]], [[0, r], [rng.randrange(c), None]]
        else:
            L = rng.randint(1, r - 1)
            s1, s2 = rng.randint(0, r - L), rng.randint(0, r - L)
            w1, w2 = [[s1, s1 + L]], [[s2, s2 + L]]
        case = {'shape': [r, c], 'w1': w1, 'w2': w2}
    if dtype == 'float64':
        base = [float(v) for v in base]
    case.update(kind='views', dtype=dtype, base=base, wrap=rng.choice(['none', 'none', 'list', 'dict', 'tuple']))
    return case


def kind(x):
    import pandas as pd
    if isinstance(x, pd.DataFrame):
        return 'DataFrame'
    if isinstance(x, pd.Series):
        return 'Series'
    if isinstance(x, np.ndarray):
        return 'ndarray'
    if isinstance(x, dict):
        return 'dict:' + type(x).__name__
    if isinstance(x, list):
        return 'list'
    if isinstance(x, tuple):
        return 'tuple'
    return 'scalar'


PLAIN = (type(None), bool, int, float, str, datetime.date, datetime.datetime)


def plain_shape(x):
    """type-structure of a plain NaN-free value, or None if not plain"""
    import pandas as pd
    if isinstance(x, (pd.Timestamp, np.generic)):
        return None
    if type(x) in (list, tuple):
        parts = [plain_shape(v) for v in x]
        return None if any(p is None for p in parts) else (type(x).__name__, tuple(parts))
    if type(x) is dict:
        parts = [(k, plain_shape(v)) for k, v in sorted(x.items())]
        return None if any(p is None for _, p in parts) else ('dict', tuple(parts))
    if type(x) in PLAIN:
        if isinstance(x, float) and x != x:
            return None
        return 'num' if type(x) in (bool, int, float) else type(x).__name__
    return None


def _plain_eq(a, b):
    try:
        return bool(a == b)
    except Exception:
        return False


def _sc_nan(v):
    if isinstance(v, (np.datetime64, np.timedelta64)):
        return 'NaT:' + type(v).__name__ if np.isnat(v) else ''       # a missing date is not a missing duration
    return 'NaN' if isinstance(v, (float, np.floating)) and bool(v != v) else ''


def _cells(values):
    """cells of an array as python/numpy scalars; datetime cells stay numpy scalars so that NaT stays NaT"""
    flat = values.reshape(-1)
    return list(flat) if flat.dtype.kind in 'mM' else flat.tolist()


def model_eq(x, y):
    """the statement, executable: same container kind/type; sequences element-wise; dicts same type, keys, values; arrays shape + every cell;
    pandas index + columns + every cell; NaN == NaN at any depth; scalars by =="""
    import pandas as pd
    kx, ky = kind(x), kind(y)
    if kx != ky:
        return False
    if kx in ('list', 'tuple'):
        return type(x) is type(y) and len(x) == len(y) and all(model_eq(a, b) for a, b in zip(x, y))
    if kx.startswith('dict'):
        return type(x) is type(y) and set(x) == set(y) and all(model_eq(dict.__getitem__(x, k), dict.__getitem__(y, k)) for k in x)
    if kx == 'ndarray':
        return x.shape == y.shape and all(model_eq(a, b) for a, b in zip(_cells(x), _cells(y)))
    if kx == 'Series':
        return len(x) == len(y) and model_eq(list(x.index), list(y.index)) and all(model_eq(a, b) for a, b in zip(_cells(x.values), _cells(y.values)))
    if kx == 'DataFrame':
        return x.shape == y.shape and model_eq(list(x.index), list(y.index)) and model_eq(list(x.columns), list(y.columns)) and \
            all(model_eq(a, b) for a, b in zip(_cells(x.values), _cells(y.values)))
    if _sc_nan(x) or _sc_nan(y):
        return _sc_nan(x) == _sc_nan(y)       # NaN matches NaN, NaT matches NaT, neither matches the other or anything else
    try:
        r = x == y
        return bool(r) if isinstance(r, (bool, np.bool_)) else False
    except Exception:
        return False


def isbool(r):
    return isinstance(r, (bool, np.bool_))


def is_dt_family(x):
    import pandas as pd
    return isinstance(x, (datetime.datetime, pd.Timestamp, np.datetime64, datetime.date))


def dt_leaves(x, depth=0):
    """the cells of x if x is a date-like scalar or an array / list / tuple of date-like scalars (else None), each with its numpy unit"""
    if is_dt_family(x):
        return [(type(x).__name__, str(x.dtype) if isinstance(x, np.datetime64) else '')]
    if depth < 2 and isinstance(x, np.ndarray) and x.size and x.dtype.kind in 'MO':
        cells = _cells(x) if x.dtype.kind == 'M' else list(x.reshape(-1))
        out = [dt_leaves(c, depth + 1) for c in cells]
        return None if any(o is None for o in out) else [('ndarray:' + str(x.dtype),) + l for o in out for l in o]
    if depth < 2 and isinstance(x, (list, tuple)) and len(x):
        out = [dt_leaves(c, depth + 1) for c in x]
        return None if any(o is None for o in out) else [l for o in out for l in o]
    return None


def laws(ctx, terms, label):
    from pyg_base import eq, in_
    A = [codec.dec(t) for t in terms]
    B = [codec.dec(t) for t in terms]   # structural clones holding fresh NaN objects
    n = len(terms)
    snaps = [core.snap(v) for v in A + B]
    E = np.zeros((n, n), dtype=bool)
    R = np.zeros((n, n), dtype=bool)
    for i in range(n):
        for j in range(n):
            for (M, x, y) in ((E, A[i], B[j]), (R, B[j], A[i])):
                st, r = ctx.call(eq, x, y)
                ctx.monitors['eq_total_boolean'] += 1
                if st != 'ok' or not isbool(r):
                    ctx.fail('eq_total_boolean', 'eq(%r, %r) -> %s %r' % (terms[i], terms[j], st, r if st == 'ok' else core.exc_str(r)), case={'kind': 'pair', 'x': terms[i], 'y': terms[j]})
                    if ctx.full():
                        return
                    r = False
                M[i, j] = bool(r)
    # eq is a pure observer: comparing must not edit what it compares
    for v, s0, t in zip(A + B, snaps, terms + terms):
        ctx.check('eq_operands_unchanged', core.snap_same(core.snap(v), s0), lambda: 'eq modified one of its arguments: %r is now %r' % (t, v))
    # symmetry
    ctx.monitors['eq_symmetric'] += n * n
    S = E != R
    for i, j in np.argwhere(S)[:6]:
        i, j = int(i), int(j)
        ctx.fail('eq_symmetric', 'eq(x,y)=%s but eq(y,x)=%s for x=%r y=%r' % (E[i, j], R[i, j], terms[i], terms[j]), case={'kind': 'pair', 'x': terms[i], 'y': terms[j]})
    # reflexive on structural clones
    for i in range(n):
        ctx.check('eq_clone_reflexive', E[i, i], lambda: 'a value is not eq to its structural copy with fresh NaN objects: %r' % (terms[i],), )
        if not E[i, i]:
            ctx.violations[-1]['case'] = {'kind': 'pair', 'x': terms[i], 'y': terms[i]}
    # transitivity over all triples
    ctx.monitors['eq_transitive_triples'] += n * n * n
    Ei = E.astype(np.int32)
    V = ((Ei @ Ei) > 0) & ~E
    per_mech = {}
    for i, k in np.argwhere(V):
        i, k = int(i), int(k)
        j = int(np.argwhere(E[i, :] & E[:, k])[0][0])
        trip = [A[i], A[j], A[k]]
        mech = None
        leaves = [dt_leaves(v) for v in trip]
        if all(is_dt_family(v) for v in trip) and len({type(v) for v in trip}) >= 2:
            mech = 'datetime-family-==-not-transitive'
        elif all(l is not None for l in leaves) and len({tuple(l) for l in leaves}) >= 2 and len({type(v) for v in trip}) == 1:
            # the same, one level down: same-shaped arrays / lists whose cells are date-like scalars of different types or units
            mech = 'datetime-family-==-not-transitive'
        elif all(isinstance(v, (bool, int, float, np.number)) for v in trip) and len({type(v) for v in trip}) >= 2 and _plain_eq(trip[0], trip[1]) and _plain_eq(trip[1], trip[2]) and not _plain_eq(trip[0], trip[2]):
            mech = 'numeric-==-not-transitive-across-float-precisions'       # the three == outcomes themselves are not transitive (a float32 against a python float is compared in float32, against a float64 in float64)
        per_mech[mech] = per_mech.get(mech, 0) + 1
        if per_mech[mech] > (6 if mech is None else 3):
            continue          # a few witnesses per mechanism: a known one must not crowd out another
        ctx.fail('eq_transitive_triples', 'eq(x,y) and eq(y,z) but not eq(x,z): x=%r y=%r z=%r' % (terms[i], terms[j], terms[k]), mech=mech, case={'kind': 'triple', 'x': terms[i], 'y': terms[j], 'z': terms[k]})
    # container-kind strictness and agreement with ==
    for i in range(n):
        for j in range(n):
            ki, kj = kind(A[i]), kind(B[j])
            if ki != kj:
                ctx.monitors['eq_kind_strict'] += 1
                if E[i, j]:
                    ctx.fail('eq_kind_strict', 'eq is True across container kinds %s / %s: %r vs %r' % (ki, kj, terms[i], terms[j]), case={'kind': 'pair', 'x': terms[i], 'y': terms[j]})
            pi, pj = plain_shape(A[i]), plain_shape(B[j])
            if pi is not None and pi == pj:
                ctx.monitors['eq_agrees_with_=='] += 1
                if bool(A[i] == B[j]) != bool(E[i, j]):
                    ctx.fail('eq_agrees_with_==', 'eq=%s but == gives %s on plain NaN-free %r vs %r' % (E[i, j], A[i] == B[j], terms[i], terms[j]), case={'kind': 'pair', 'x': terms[i], 'y': terms[j]})
    # the statement as an executable reference model
    for i in range(n):
        for j in range(n):
            ctx.monitors['eq_reference_model'] += 1
            m = model_eq(A[i], B[j])
            if m != bool(E[i, j]):
                ctx.fail('eq_reference_model', 'eq = %s but the structural reference says %s: %r vs %r' % (bool(E[i, j]), m, terms[i], terms[j]), case={'kind': 'pair', 'x': terms[i], 'y': terms[j]})
                if ctx.full():
                    return
    # in_ consistent with eq
    rng = random.Random(n)
    for _ in range(min(60, n)):
        i = rng.randrange(n)
        js = [rng.randrange(n) for _ in range(4)]
        st, r = ctx.call(in_, A[i], [B[j] for j in js])
        ctx.check('in_consistent', st == 'ok' and bool(r) == bool(any(E[i, j] for j in js)), lambda: 'in_(%r, %r) = %s %r, eq says %s' % (terms[i], [terms[j] for j in js], st, r, [bool(E[i, j]) for j in js]))
    ctx.cls(label)


LEAVES = [None, True, 0, 1, 2, 1.0, 2.5, 'a', 'b', '', {'$nan': 0}, {'$nan': 'np'}, {'$dt': '2020-01-01T00:00:00'}, {'$date': '2020-01-01'}, {'$np': ['int64', 1]}, {'$np': ['float64', 2.5]},
          {'$np': ['float32', {'$nan': 1}]}, {'$arr': ['float64', [1.0, {'$nan': 2}]]}, {'$arr': ['int64', [1, 2]]}, {'$arr': ['int64', [[1, 2], [3, 4]]]}, {'$ts': [IDX, [1.0, {'$nan': 3}, 3.0]]}]


def rand_nested(rng, depth=0):
    r = rng.random()
    if depth >= 3 or r < 0.4:
        v = rng.choice(LEAVES)
        return v
    k = rng.randint(0, 3)
    if r < 0.6:
        return [rand_nested(rng, depth + 1) for _ in range(k)]
    if r < 0.75:
        return T(*[rand_nested(rng, depth + 1) for _ in range(k)])
    body = {c: rand_nested(rng, depth + 1) for c in rng.sample(['a', 'b', 'c', 'd'], k)}
    return body if r < 0.92 else {rng.choice(['$Dict', '$dictattr']): body}


def mutate(rng, t):
    """one-point structural mutation of a term (container kind flip, leaf change, key rename)"""
    if isinstance(t, list):
        if t and rng.random() < 0.6:
            i = rng.randrange(len(t))
            return t[:i] + [mutate(rng, t[i])] + t[i + 1:]
        return T(*t)
    if isinstance(t, dict) and '$t' in t:
        xs = t['$t']
        if xs and rng.random() < 0.6:
            i = rng.randrange(len(xs))
            return T(*(xs[:i] + [mutate(rng, xs[i])] + xs[i + 1:]))
        return list(xs)
    if isinstance(t, dict) and len(t) == 1 and next(iter(t)) in ('$Dict', '$dictattr'):
        return dict(next(iter(t.values())))
    if isinstance(t, dict) and not any(k.startswith('$') for k in t):
        if t and rng.random() < 0.6:
            k = rng.choice(list(t))
            return dict(t, **{k: mutate(rng, t[k])})
        if t and rng.random() < 0.5:
            k = rng.choice(list(t))
            d = dict(t); v = d.pop(k); d[k + 'z'] = v
            return d
        return {'$Dict': t}
    return rng.choice([x for x in LEAVES if x != t])


def nan_depth(t, d=0):
    if isinstance(t, dict) and '$nan' in t:
        return d
    if isinstance(t, dict):
        return max([nan_depth(v, d + 1) for v in (t['$t'] if '$t' in t else t.values())] + [-1]) if not ('$np' in t or '$arr' in t or '$ts' in t) else (d + 1 if 'nan' in repr(t) else -1)
    if isinstance(t, list):
        return max([nan_depth(v, d + 1) for v in t] + [-1])
    return -1


def run_case(case, ctx):
    k = case['kind']
    if k == 'universe':
        terms = universe() if case['which'] == 'fixed' else case['terms']
        if case['which'] == 'fixed' and case.get('order'):
            # eq is a function of its two arguments: what this process compared earlier has no say. Each shard is a fresh process and walks the
            # fixed universe in an order of its own, so the first comparison ever made (and the first of each kind) differs from shard to shard
            how = case['order']
            if how == 'reversed':
                terms = terms[::-1]
            elif how == 'shuffled':
                terms = list(terms); random.Random(case.get('order_seed', 0)).shuffle(terms)
            elif how == 'zero_d_first':
                zero_d = [t for t in terms if isinstance(t, dict) and '$arr' in t and not isinstance(t['$arr'][1], list)]
                cont = [t for t in terms if isinstance(t, (list, dict)) and t not in zero_d]
                terms = zero_d + cont[:40] + [t for t in terms if t not in zero_d and t not in cont[:40]]
            elif how == 'scalars_first':
                sc = [t for t in terms if not isinstance(t, (list, dict))]
                terms = sc + [t for t in terms if isinstance(t, (list, dict))]
            ctx.cls('fixed_universe_order:%s' % how)
        laws(ctx, terms, 'universe:' + case['which'])
    elif k == 'views':
        run_views(case, ctx)
    elif k == 'edited':
        run_edited(case, ctx)
    elif k in ('pair', 'triple'):
        laws(ctx, [case[x] for x in ('x', 'y', 'z') if x in case], 'replay')
    else:
        raise HarnessError(k)


def plan(tier, seed, n):
    per = 6 if tier == 'quick' else 200
    orders = [None, 'reversed', 'zero_d_first', 'shuffled', 'scalars_first']
    return [{'fixed': i < len(orders) and i < max(n - 2, 1), 'order': orders[i] if i < len(orders) else None, 'nu': per} for i in range(n)]


def run(spec, ctx):
    if spec['fixed']:
        case = {'kind': 'universe', 'which': 'fixed', 'size': len(universe())}
        if spec.get('order'):
            case['order'] = spec['order']
            case['order_seed'] = spec['seed'] * 100 + spec['shard']
        ctx.case(case, nontrivial=True)
        ctx.run_case(case, run_case)
        return
    for i in range(spec['nu']):
        rng = random.Random('C14/%d/%d/%d' % (spec['seed'], spec['shard'], i))
        terms = []
        while len(terms) < 30:
            t = rand_nested(rng)
            terms.append(t)
            terms.append(mutate(rng, t))
            if rng.random() < 0.3:
                terms.append(mutate(rng, mutate(rng, t)))
        case = {'kind': 'universe', 'which': 'random', 'terms': terms}
        ctx.case(case, nontrivial=True, sample=(i == 0 and spec['shard'] == 1))
        if any(nan_depth(t) >= 2 for t in terms):
            ctx.cls('nan_at_depth>=2')
        ctx.run_case(case, run_case)
        for j in range(40):
            vc = gen_views(random.Random('C14v/%d/%d/%d/%d' % (spec['seed'], spec['shard'], i, j)))
            ctx.case(vc, nontrivial=vc['w1'] != vc['w2'])
            ctx.run_case(vc, run_case)
        for j in range(6):
            r_ = random.Random('C14e/%d/%d/%d/%d' % (spec['seed'], spec['shard'], i, j))
            shape = r_.choice([[64], [100], [8, 8], [10, 13], [4, 4, 4], [256]])
            n_ = int(np.prod(shape))
            ec = {'kind': 'edited', 'n': n_, 'shape': shape, 'dtype': r_.choice(['int64', 'float64', 'int32']), 'pos': r_.randrange(n_), 'wrap': r_.choice(['none', 'none', 'list', 'dict'])}
            ctx.case(ec, nontrivial=True)
            ctx.run_case(ec, run_case)
        if ctx.full():
            break


def replay(case, ctx):
    ctx.case(case)
    ctx.run_case(case, run_case, shrink=False)
