"""C18 - decorators are transparent: same results, same signature, no double wrapping; getcallargs; cache; try_*; kwargs_support.

Monitor shape: the standard library is the reference (inspect.getfullargspec / inspect.getcallargs / the direct call f(*a, **k));
functions are generated from signature terms, their bodies record every evaluation (call recorder), so 'how often' and 'with what'
are read from one history."""
import random, inspect, itertools, math
from .. import core, codec
from ..core import same, HarnessError

ID = 'C18'
TITLE = 'decorators are transparent; getcallargs; cache; try_*; kwargs_support'
LEVEL = 'exploration'
TECHNIQUE = 'runtime monitoring: stdlib inspect and the direct call as reference; generated functions record every evaluation (call recorder); cache call-sequence histories'
LEVEL_TEXT = 'All 60 signatures x every positional/keyword split x sampled stacks of <=3 decorators (thorough: many more stacks). A check says held on K observed executions, never verified.'
LEVEL_NOTE = 'Trusted: inspect.getfullargspec/getcallargs. One known finding (kwargs_support on **kwargs functions) is reported as KNOWN-FINDING.'
RULE = ('every signature with 0-4 positional parameters x 0..k trailing defaults x +-*args x +-**kwargs (60 signatures), every split of a valid argument set between positional and keyword '
        'passing (+ extra *args / **kwargs where accepted), stacks of <=3 decorators from {try_none, try_zero, try_nan, try_true, try_false, try_list, try_back, kwargs_support, cache, loop(list), pd2np}; '
        'cache histories: random call sequences over a pool of hashable argument combinations; non-trivial = a call passing >=1 argument by keyword through a stack of >=2 decorators, or a cache history '
        'with a repeated combination; distinct = canonical hash of (signature, stack, call) or of the history')
RULE_ALSO = '; added by the coverage audit and round 8: try_value(repeat=, return_value=) on functions failing their first j calls, cached functions called with tuples / lists holding lists or dicts'
ASSUMPTIONS = ['no keyword-only parameters (outside the quantifier)', 'cache arguments are hashable scalars without cross-type numeric collisions (1 / 1.0 / True)',
               'loop(list) and pd2np are exercised on scalar (non-container, non-pandas, non-ndarray) arguments', 'try_back raising calls supply the first parameter',
               'raising calls are evaluated through stacks holding exactly one try_* wrapper']
NAMES = ['a', 'b', 'c', 'd']


def required(tier):
    return {'wrapped_equals_direct': 2000, 'argspec_forwarded': 300, 'no_double_wrapping': 300, 'getcallargs_vs_inspect': 800, 'call_with_callargs': 800,
            'cache_once_per_combination': 200, 'try_fallback_iff_raises': 300, 'kwargs_support_ignores_undeclared': 200}


class Rec(object):
    def __init__(self):
        self.log = []


def mk_fn(sig, rec, ret='tuple'):
    """sig = {'npos':n, 'ndef':k, 'varargs':bool, 'varkw':bool}"""
    n, k = sig['npos'], sig['ndef']
    params = []
    for i, nm in enumerate(NAMES[:n]):
        params.append(nm if i < n - k else '%s=%d' % (nm, 100 + i))
    if sig['varargs']:
        params.append('*args')
    if sig.get('kwonly'):
        if not sig['varargs']:
            params.append('*')
        params.append('ko=200')          # a declared keyword-only parameter
    if sig['varkw']:
        params.append('**kwargs')
    bound = ', '.join(NAMES[:n]) + (',' if n else '')
    src = 'def f(%s):\n' % ', '.join(params)
    src += '    vals = (%s)%s%s\n' % (bound, ' + tuple(args)' if sig['varargs'] else '', ' + ("ko=", ko)' if sig.get('kwonly') else '')
    src += '    kw = %s\n' % ('tuple(sorted(kwargs.items()))' if sig['varkw'] else '()')
    src += '    _rec.log.append((vals, kw))\n'
    src += '    _all = list(vals) + [v for _, v in kw]\n'
    src += '    if any(isinstance(v, str) and v == "RAISE" for v in _all):\n        raise ValueError("asked to raise")\n'
    src += '    if any(isinstance(v, str) and v == "RAISE0" for v in _all):\n        raise ValueError\n'            # exceptions come with no argument ...
    src += '    if any(isinstance(v, str) and v == "RAISE2" for v in _all):\n        raise KeyError("bad", 3)\n'     # ... or with several
    src += {'tuple': '    return ("f", vals, kw)\n', 'none': '    return None\n', 'zero': '    return 0\n', 'empty': '    return []\n', 'false': '    return False\n'}[ret]
    g = {'_rec': rec}
    exec(src, g)
    return g['f']


def all_sigs():
    out = []
    for n in range(5):
        for k in range(n + 1):
            for va in (False, True):
                for vk in (False, True):
                    out.append({'npos': n, 'ndef': k, 'varargs': va, 'varkw': vk})
                    if 1 <= n <= 2:
                        out.append({'npos': n, 'ndef': k, 'varargs': va, 'varkw': vk, 'kwonly': True})
    return out


def valid_calls(sig, rng, cap=30):
    """every split of a valid argument set between positional and keyword passing"""
    n, k = sig['npos'], sig['ndef']
    req = n - k
    calls = []
    for npos in range(n + 1):
        rest = NAMES[npos:n]
        must = [p for i, p in enumerate(NAMES[:n]) if i >= npos and i < req]
        opt = [p for i, p in enumerate(NAMES[:n]) if i >= npos and i >= req]
        for r in range(len(opt) + 1):
            for sub in itertools.combinations(opt, r):
                kwn = must + list(sub)
                extra_a = [0, 1, 2] if (sig['varargs'] and npos == n) else [0]
                extra_k = [0, 1, 2] if sig['varkw'] else [0]
                for ea in extra_a:
                    for ek in extra_k:
                        calls.append((npos, kwn, ea, ek))
    if len(calls) > cap:
        calls = rng.sample(calls, cap)
    out = []
    for npos, kwn, ea, ek in calls:
        vals = iter(range(1, 50))
        a = [next(vals) for _ in range(npos + ea)]
        kw = {nm: next(vals) for nm in kwn}
        if sig.get('kwonly') and (len(out) % 2 == 0):
            kw['ko'] = next(vals)          # the keyword-only parameter is passed in every other call
        for j in range(ek):
            kw[['zz', 'yy'][j] if not (sig['varargs'] and sig['varkw'] and j == 0 and len(out) % 3 == 0) else 'args'] = next(vals)      # a surplus keyword may be called like the *args parameter
        out.append({'a': a, 'k': kw})
    return out


def decorators():
    from pyg_base import try_none, try_zero, try_nan, try_true, try_false, try_list, try_back, kwargs_support, cache, loop, pd2np
    return {'try_none': try_none, 'try_zero': try_zero, 'try_nan': try_nan, 'try_true': try_true, 'try_false': try_false, 'try_list': try_list, 'try_back': try_back,
            'kwargs_support': kwargs_support, 'cache': cache, 'loop_list': loop(list), 'pd2np': pd2np}


TRY = {'try_none': None, 'try_zero': 0, 'try_nan': float('nan'), 'try_true': True, 'try_false': False, 'try_list': []}
DNAMES = ['try_none', 'try_zero', 'try_nan', 'try_true', 'try_false', 'try_list', 'try_back', 'kwargs_support', 'cache', 'loop_list', 'pd2np']


def wrap(f, stack):
    D = decorators()
    w = f
    for name in reversed(stack):   # stack[0] is outermost
        w = D[name](w)
    return w


def structure(w):
    """(class name, params) per level down to the innermost function identity"""
    from pyg_base._decorators import wrapper
    out = []
    while isinstance(w, wrapper):
        out.append((type(w).__name__, tuple(sorted((k, repr(v)) for k, v in w._kwargs.items() if k != 'cache'))))
        w = w.function
    out.append(('fn', id(w)))
    return out


def spec_tuple(sp):
    g = (lambda k: sp[k]) if isinstance(sp, dict) else (lambda k: getattr(sp, k))
    return (list(g('args')), g('varargs'), g('varkw'), tuple(g('defaults')) if g('defaults') else None, list(g('kwonlyargs')), g('kwonlydefaults'), dict(g('annotations')))


def typed(v):
    """value with the concrete type of every part: what f returns is returned as is, not an equal value of another type"""
    if isinstance(v, (list, tuple)):
        return (type(v).__name__, tuple(typed(x) for x in v))
    if isinstance(v, dict):
        return (type(v).__name__, tuple(sorted((kk_, typed(vv_)) for kk_, vv_ in v.items())))
    return (type(v).__name__, repr(v))


def run_sig(case, ctx):
    """the parameters are called a, b, c, d - or, when the case says so, by other names (a leading underscore): a name is a name"""
    global NAMES
    names = case.get('names')
    if not names:
        return _run_sig(case, ctx)
    old = NAMES
    mp = dict(zip(old, names))
    case = dict(case, call={'a': case['call']['a'], 'k': {mp.get(k_, k_): v for k_, v in case['call']['k'].items()}})
    NAMES = list(names)
    ctx.cls('parameter_names:%s' % ','.join(names))
    try:
        return _run_sig(case, ctx)
    finally:
        NAMES = old


def _run_sig(case, ctx):
    from pyg_base import getargspec, getcallargs, call_with_callargs, kwargs_support
    sig, stack, call = case['sig'], case['stack'], case['call']
    rec = Rec()
    f = mk_fn(sig, rec)
    a, k = [codec.dec(v) for v in call['a']], {n_: codec.dec(v) for n_, v in call['k'].items()}
    st0, direct = ctx.call(f, *a, **k)
    if st0 != 'ok':
        raise HarnessError('generated call invalid: %r %r %r' % (sig, call, direct))
    # ---- getcallargs / call_with_callargs against inspect
    st, ca = ctx.call(getcallargs, f, *a, **k)
    ref = inspect.getcallargs(f, *a, **k)
    mech_ko = None
    if sig.get('kwonly') and st == 'ok' and dict(ca) != ref:
        # known finding: the helpers only know spec.args - a passed keyword-only argument is filed under **kwargs (or simply added) and the parameter keeps its default
        ca_ = dict(ca); ref_ = dict(ref)
        vk_ = 'kwargs' if sig['varkw'] else None
        if vk_:
            ca_[vk_] = {x: v for x, v in ca_.get(vk_, {}).items() if x != 'ko'}
        ca_.pop('ko', None); ref_.pop('ko', None)
        if ca_ == ref_:
            mech_ko = 'keyword-only-parameters-unknown-to-getcallargs-and-call_with_callargs'
    ctx.check('getcallargs_vs_inspect', st == 'ok' and dict(ca) == ref, mech=mech_ko, detail=lambda: 'getcallargs(f%s, *%r, **%r) = %s %r, inspect says %r' % (inspect.signature(f), a, k, st, ca, ref))
    if st == 'ok':
        st2, r2 = ctx.call(call_with_callargs, f, ca)
        mech_cw = None
        if sig.get('kwonly') and st2 == 'ok' and r2 != direct and r2 == f(*a, **{x: v for x, v in k.items() if x != 'ko'}):
            mech_cw = 'keyword-only-parameters-unknown-to-getcallargs-and-call_with_callargs'     # the keyword-only argument is not passed on: f ran with its default
        ctx.check('call_with_callargs', st2 == 'ok' and r2 == direct, mech=mech_cw, detail=lambda: 'call_with_callargs(f%s, %r) = %s %r, f(*a,**k) = %r' % (inspect.signature(f), ca, st2, r2, direct))
        # the caller keeps its callargs dict: it still agrees with inspect and can be used again
        st3, r3 = ctx.call(call_with_callargs, f, ca)
        ctx.check('call_with_callargs', dict(ca) == ref and st3 == 'ok' and r3 == direct, mech=mech_cw or mech_ko, detail=lambda: 'after call_with_callargs the callargs dict is %r (inspect: %r); second use = %s %r' % (ca, ref, st3, r3))
    # ---- transparency through the stack
    w = wrap(f, stack)
    has_ks = 'kwargs_support' in stack
    stw, got = ctx.call(w, *a, **k)
    extra_kw = [x for x in k if x not in NAMES[:sig['npos']] and not (x == 'ko' and sig.get('kwonly'))]
    if not (stw == 'ok' and got == direct and typed(got) == typed(direct)):
        mech = None
        if has_ks and sig['varkw'] and extra_kw and stw == 'ok' and got == f(*a, **{x: v for x, v in k.items() if x not in extra_kw}):
            mech = 'kwargs_support-drops-keywords-of-varkw-function'
        ctx.ev('wrapped_equals_direct')
        ctx.fail('wrapped_equals_direct', '%s(f%s)(*%r, **%r) = %s %r ; f(*a, **k) = %r' % ('('.join(stack), inspect.signature(f), a, k, stw, got if stw == 'ok' else core.exc_str(got), direct), mech=mech)
    else:
        ctx.ev('wrapped_equals_direct')
    # ---- argspec forwarded
    sp = ctx.call(getargspec, w)
    ctx.check('argspec_forwarded', sp[0] == 'ok' and spec_tuple(sp[1]) == spec_tuple(inspect.getfullargspec(f)), lambda: 'getargspec(%s(f%s)) = %r' % ('('.join(stack), inspect.signature(f), sp[1]))
    if sp[0] == 'ok':
        from pyg_base._inspect import argspec_add
        ctx.call(argspec_add, sp[1], zz9=0)           # somebody derives a wider spec from the reported one
        sp2 = ctx.call(getargspec, w)
        ctx.check('argspec_forwarded', sp2[0] == 'ok' and spec_tuple(sp2[1]) == spec_tuple(inspect.getfullargspec(f)), lambda: 'getargspec(%s(f%s)) after argspec_add(spec, zz9=0) = %r' % ('('.join(stack), inspect.signature(f), sp2[1]))
    # ---- no double wrapping: W(W(f)) == W(f); W(X(W(f))) == W(X(f))
    if stack:
        W = stack[0]
        once = structure(wrap(f, stack))
        twice = structure(wrap(f, [W] + stack))
        ctx.check('no_double_wrapping', once == twice, lambda: '%s twice over %s: %r vs once %r' % (W, stack[1:], twice, once))
        # wrapping an existing wrapped function builds a NEW object: the one handed over is what it was (structure and all the way down)
        D_ = decorators()
        for inner_stack in ([stack[1:] + [W]] if len(stack) >= 3 and stack[0] not in stack[1:] else []) + ([stack] if len(stack) >= 2 else []):
            xobj = wrap(f, inner_stack)
            before_s = structure(xobj)
            ctx.call(D_[W], xobj)
            ctx.check('no_double_wrapping', structure(xobj) == before_s, lambda: 'wrapping %s with %s changed the object that was handed over: %r -> %r' % ('('.join(inner_stack), W, before_s, structure(xobj)))
        if len(stack) >= 2:
            X = stack[1]
            if X != W:
                chain = structure(wrap(f, [W, X, W] + stack[2:]))
                ref_ = structure(wrap(f, [W, X] + stack[2:]))
                ctx.check('no_double_wrapping', chain == ref_, lambda: '%s(%s(%s(..))) = %r, expected %r' % (W, X, W, chain, ref_))
                if len(stack) >= 3 and stack[2] not in (W, X):
                    Y = stack[2]
                    deep = structure(wrap(f, [W, X, Y, W] + stack[3:]))
                    ref3 = structure(wrap(f, [W, X, Y] + stack[3:]))
                    ctx.check('no_double_wrapping', deep == ref3, lambda: '%s(%s(%s(%s(..)))) = %r, expected %r' % (W, X, Y, W, deep, ref3))
                    st4, g4 = ctx.call(wrap(f, [W, X, Y, W] + stack[3:]), *a, **k)
                    if not (has_ks and sig['varkw'] and extra_kw):
                        ctx.check('wrapped_equals_direct', st4 == 'ok' and g4 == direct, lambda: 'W(X(Y(W(f)))) call = %s %r vs %r' % (st4, g4, direct))
                wf = wrap(f, [W, X, W] + stack[2:])
                stx, gx = ctx.call(wf, *a, **k)
                if not (has_ks and sig['varkw'] and extra_kw):
                    ctx.check('wrapped_equals_direct', stx == 'ok' and gx == direct, lambda: 'W(X(W(f))) call = %s %r vs %r' % (stx, gx, direct))
    # ---- kwargs_support ignores exactly the undeclared keywords (functions without **kwargs)
    if not sig['varkw']:
        junk = {'zz': 'RAISE', 'q_q': 2}
        wk = wrap(f, ['kwargs_support'] + [s for s in stack if s not in ('kwargs_support',)][:1])
        stk, gk = ctx.call(wk, *a, **dict(k, **junk))
        ctx.check('kwargs_support_ignores_undeclared', stk == 'ok' and gk == direct, lambda: 'kwargs_support(f%s)(*%r, **%r + junk) = %s %r ; f(*a,**k) = %r' % (inspect.signature(f), a, k, stk, gk, direct))
        stj, gj = ctx.call(f, *a, **dict(k, **junk))
        if not (stj == 'exc' and isinstance(gj, TypeError)):
            raise HarnessError('f accepted junk')
    # ---- try_* fallback exactly when f raises
    tries = [s for s in stack if s.startswith('try_')]
    supplied = list(a) + list(k.values())
    FLAG = case.get('raise_flag', 'RAISE')
    if len(tries) == 1 and supplied:
        t = tries[0]
        # make the call raise by flagging one supplied argument (not the first for try_back)
        a2, k2 = list(a), dict(k)
        if t == 'try_back':
            first_supplied = len(a) > 0 or (sig['npos'] > 0 and NAMES[0] in k)
            if not first_supplied or len(supplied) < 2:
                a2 = None
            elif len(a) >= 2:
                a2[-1] = FLAG
            else:
                key = [x for x in k if not (len(a) == 0 and x == NAMES[0])]
                if key:
                    k2[key[-1]] = FLAG
                else:
                    a2 = None
        else:
            if a:
                a2[-1] = FLAG
            else:
                k2[list(k)[-1]] = FLAG
        if a2 is not None and not (has_ks and any(v == FLAG for x, v in k2.items() if x in extra_kw)):
            w2 = wrap(f, stack)
            st3, g3 = ctx.call(w2, *a2, **k2)
            if t == 'try_back':
                expv = a2[0] if a2 else k2[NAMES[0]]
            else:
                expv = TRY[t]
            ok = st3 == 'ok' and (g3 == expv or (isinstance(expv, float) and expv != expv and isinstance(g3, float) and g3 != g3)) and type(g3) is type(expv)
            ctx.check('try_fallback_iff_raises', ok, lambda: '%s: raising call (*%r, **%r) returned %s %r, expected fallback %r' % ('('.join(stack), a2, k2, st3, g3, expv))
            if ok and len(k2) >= 2:
                # the same call with its keywords written in the opposite order: the same arguments, the same fallback
                k2r = dict(reversed(list(k2.items())))
                st3r, g3r = ctx.call(wrap(f, stack), *a2, **k2r)
                okr = st3r == 'ok' and (g3r == expv or (isinstance(expv, float) and expv != expv and isinstance(g3r, float) and g3r != g3r)) and type(g3r) is type(expv)
                ctx.check('try_fallback_iff_raises', okr, lambda: '%s: raising call (*%r, **%r) - keywords in the opposite order - returned %s %r, expected fallback %r' % ('('.join(stack), a2, k2r, st3r, g3r, expv))
            if ok and t == 'try_list':
                g3.append('polluted')     # the caller may edit the fallback it received
                st4, g4 = ctx.call(wrap(f, stack), *a2, **k2)
                ctx.check('try_fallback_iff_raises', st4 == 'ok' and g4 == [], lambda: 'try_list fallback after the caller edited an earlier one: %r' % (g4,))
                st4b, g4b = ctx.call(w2, *a2, **k2) if 'cache' not in stack else ('ok', [])          # ... also from the very same wrapped function (a cached one returns its first result, by design)
                ctx.check('try_fallback_iff_raises', st4b == 'ok' and g4b == [] and g4b is not g3, lambda: 'try_list: the same wrapped function, failing again after the caller edited the fallback it got the first time, returned %r' % (g4b,))
    elif not tries and supplied and not ('kwargs_support' in stack and sig['varkw']):
        a2, k2 = list(a), dict(k)
        if a:
            a2[0] = FLAG
        else:
            k2[list(k)[0]] = FLAG
        st5, g5 = ctx.call(wrap(f, stack), *a2, **k2)
        ctx.check('try_fallback_iff_raises', st5 == 'exc' and isinstance(g5, (ValueError, KeyError)), lambda: 'no try_* in %s but a raising call returned %s %r' % (stack, st5, g5))
    if len(stack) >= 2 and k:
        ctx.mark_nontrivial(case)
    ctx.cls('stack_depth:%d' % len(stack))
    for s in stack:
        ctx.cls('dec:' + s)


def run_cache(case, ctx):
    from pyg_base import cache
    sig = case['sig']
    rec = Rec()
    f = mk_fn(sig, rec, ret=case['ret'])
    stack = case.get('stack', ['cache'])
    w = wrap(f, stack)
    first = {}
    loose_seen = set()
    model_calls = 0
    for ci, idx in enumerate(case['seq']):
        call = case['pool'][idx]
        a, k = [codec.dec(v) if isinstance(v, (dict, list)) else v for v in call['a']], {n_: (codec.dec(v) if isinstance(v, (dict, list)) else v) for n_, v in call['k'].items()}
        if ci % 2 and len(k) > 1:
            k = dict(reversed(list(k.items())))       # the same combination with its keywords written in another order
        tl = lambda v: tuple(tl(x) for x in v) if isinstance(v, (list, tuple)) else (('dict',) + tuple(sorted((kk_, tl(vv_)) for kk_, vv_ in v.items()))) if isinstance(v, dict) else v          # what a key that cannot tell a list from a tuple sees
        key = (typed(a), tuple(sorted((n_, typed(v)) for n_, v in k.items())))                  # 'as passed': 1, True and 1.0, or [1, 2] and (1, 2), are different arguments
        loose = (tl(a), frozenset((n_, tl(v)) for n_, v in k.items()))
        n0 = len(rec.log)
        st, got = ctx.call(w, *a, **k)
        n1 = len(rec.log)
        if key not in first:
            model_calls += 1
            exp_new = 1
        else:
            exp_new = 0
        ok = st == 'ok' and (n1 - n0) == exp_new
        if key in first:
            ok = ok and (got is first[key] or got == first[key])
        else:
            first[key] = got
        mech_c = None
        if not ok and st == 'ok' and exp_new == 1 and n1 == n0 and loose in loose_seen:
            # known finding: the cache key is built from hash / == (lists are keyed as tuples): arguments that are equal but of another type share an entry
            mech_c = 'cache-key-cannot-tell-equal-arguments-of-different-type-apart'
            first[key] = got
        loose_seen.add(loose)
        if not ctx.check('cache_once_per_combination', ok, lambda: 'call #%d (*%r, **%r) on cached f%s (returns %s): f evaluated %d time(s), expected %d; result %r' % (ci, a, k, inspect.signature(f), case['ret'], n1 - n0, exp_new, got), mech=mech_c):
            if mech_c is None:
                return
            model_calls -= 1
    ctx.check('cache_once_per_combination', len(rec.log) == model_calls, lambda: 'f evaluated %d times for %d distinct combinations' % (len(rec.log), model_calls))
    if case.get('factory') and stack == ['cache']:
        # the factory spelling kept in a variable and used for two functions: each function has its own memory
        from pyg_base import cache_func
        memo = cache_func()
        rec1, rec2 = Rec(), Rec()
        f1, f2 = memo(mk_fn(sig, rec1, ret='tuple')), memo(mk_fn(sig, rec2, ret='zero'))
        call = case['pool'][case['seq'][0]]
        a_, k_ = list(call['a']), dict(call['k'])
        s1, g1 = ctx.call(f1, *a_, **k_)
        s2, g2 = ctx.call(f2, *a_, **k_)
        ctx.check('cache_once_per_combination', s1 == s2 == 'ok' and len(rec1.log) == 1 and len(rec2.log) == 1 and g2 == 0 and g1 != 0,
                  lambda: 'memo = cache_func(); memo(f) and memo(g) called with the same arguments: f evaluated %d time(s) -> %r, g evaluated %d time(s) -> %r (g returns 0)' % (len(rec1.log), g1, len(rec2.log), g2))
    if len(set(case['seq'])) < len(case['seq']):
        ctx.mark_nontrivial(case)
    ctx.cls('cache:ret=' + case['ret'])


def run_exc(case, ctx):
    """pd2np built with exc=<name>: on non-pandas input f still gets, and returns, exactly what it was given under that name"""
    import numpy as np
    import pandas as pd
    from pyg_base import pd2np
    f = lambda a, idx=None, other=None: (a, idx, other)
    w = pd2np(f, exc=case['exc']) if case['form'] == 'direct' else pd2np(exc=case['exc'])(f)
    idx = {'int_array': np.array([0, 2, 1]), 'list': [0, 1], 'int_series': pd.Series([1, 2, 3]), 'nested': {'i': np.array([1, 0])}, 'int': 3}[case['idx']]
    first = {'float': 2.5, 'list': [1.5, 2.5], 'farray': np.array([1.0, 2.0]), 'str': 'x'}[case['first']]
    st, got = ctx.call(w, first, idx=idx, other=4.5)
    ok = st == 'ok' and isinstance(got, tuple) and len(got) == 3 and got[1] is idx and got[2] == 4.5
    ctx.check('wrapped_equals_direct', ok, lambda: 'pd2np(f, exc=%r)(%r, idx=<%s>) handed f %r for idx (the very object given is expected)' % (case['exc'], first, case['idx'], got[1] if st == 'ok' and isinstance(got, tuple) else got))
    ctx.cls('pd2np_exc')


def run_axis(case, ctx):
    """a function that has a parameter called `axis`, lifted with loop: on non-container input it returns what f returns"""
    from pyg_base import loop
    f = lambda a, axis=5, other=7: ('f', a, axis, other)
    w = {'list': loop(list), 'all': loop(list, tuple, dict)}[case['types']](f)
    st, got = ctx.call(w, case['a'], axis=case['axis'], other=case['axis']) if case['by'] == 'kw' else ctx.call(w, case['a'], case['axis'], case['axis'])
    exp = f(case['a'], case['axis'], case['axis'])
    mech = None
    if st == 'ok' and got != exp and case['by'] == 'kw' and got == f(case['a'], 5, case['axis']):
        mech = 'loop-consumes-a-keyword-called-axis'          # known finding: the lifting wrapper pops `axis` for itself; f runs with its own default
    ctx.check('wrapped_equals_direct', st == 'ok' and got == exp, lambda: 'loop(..)(f)(%r, axis=%r) with f(a, axis=5, other=7) = %s %r, f itself returns %r' % (case['a'], case['axis'], st, got, exp), mech=mech)
    ctx.cls('loop_axis_keyword')


def run_retry(case, ctx):
    """try_value built with repeat=k: f is tried up to k+1 times; the fallback comes back exactly when every attempt raised
    (with return_value=False the last exception is let through instead)"""
    from pyg_base import try_value, try_none, try_zero
    k, j, rv = case['repeat'], case['fails'], case['return_value']
    calls = []

    def flaky(a, b=2):
        calls.append((a, b))
        if len(calls) <= j:
            raise ValueError('attempt %d fails' % len(calls))
        return ('ok', a, b)
    fallback = case['value']
    if case['form'] == 'ctor':
        w = try_value(flaky, repeat=k, sleep=0, return_value=rv, value=fallback)
    else:
        w = try_value(repeat=k, return_value=rv, value=fallback)(flaky)
    st, got = ctx.call(w, 1, b=3)
    if j <= k:
        ok = st == 'ok' and got == ('ok', 1, 3) and len(calls) == j + 1
    elif rv:
        ok = st == 'ok' and got == fallback and type(got) is type(fallback) and len(calls) == k + 1 and (not isinstance(fallback, list) or got is not fallback)
    else:
        ok = st == 'exc' and isinstance(got, ValueError) and len(calls) == k + 1
    ctx.check('try_fallback_iff_raises', ok and all(c == (1, 3) for c in calls),
              lambda: 'try_value(f, repeat=%d, return_value=%r, value=%r) on an f whose first %d calls raise: %s %r after %d calls of f (expected %s after %d)' % (
                  k, rv, fallback, j, st, got, len(calls), "f's value" if j <= k else ('the fallback' if rv else "f's exception"), min(j, k) + 1))
    if j > k and rv and isinstance(fallback, list) and st == 'ok' and isinstance(got, list):
        got.append('edited-by-the-caller')
        del calls[:]
        st2, got2 = ctx.call(w, 1, b=3)
        ctx.check('try_fallback_iff_raises', st2 == 'ok' and got2 == fallback and got2 is not got, lambda: 'try_value(value=%r): failing again after the caller edited the fallback it got the first time returned %r' % (fallback, got2))
    ctx.cls('try_value_repeat')
    if j:
        ctx.mark_nontrivial(case)


def run_case(case, ctx):
    if case['kind'] == 'axis':
        return run_axis(case, ctx)
    if case['kind'] == 'retry':
        return run_retry(case, ctx)
    if case['kind'] == 'exc':
        return run_exc(case, ctx)
    return run_cache(case, ctx) if case['kind'] == 'cache' else run_sig(case, ctx)


def gen_stack(rng):
    n = rng.choice([1, 1, 2, 2, 3])
    st = []
    for _ in range(n):
        st.append(rng.choice(DNAMES))
    # same decorator twice in a row is the idempotence test itself; keep stacks free of adjacent duplicates
    return [s for i, s in enumerate(st) if i == 0 or s != st[i - 1]]


def gen_cache_case(rng):
    sig = rng.choice(all_sigs())
    calls = valid_calls(sig, rng, cap=6)
    # distinct values pool without numeric collisions
    pool = []
    vals = ['x', 'y', 2, 3, None, 'z', 5, ('t', 1), 7.5, -1, -2, 2 ** 61 - 1, 0, -1, -2]   # hash(-1) == hash(-2), hash(2**61-1) == hash(0): distinct arguments, equal hashes
    if rng.random() < 0.25:
        vals = [1, True, 1.0, [1, 2], {'$t': [1, 2]}, 0, False, 'x', [], {'$t': []}]               # equal (or equal once lists are read as tuples) but not the same argument
    elif rng.random() < 0.2:
        vals = [{'$t': [1, [2, 3]]}, {'$t': ['x', {'k': 1}]}, {'$t': [1, [2, 4]]}, [1, {'$t': [5, 6]}], 'x', 3, {'$t': ['nm', [7, 8]]}, [[1], [2]]]    # unhashable parts one level down: inside a tuple, inside a list
    for c in calls:
        for _ in range(2):
            m = {}
            a = [m.setdefault(v, rng.choice(vals)) for v in c['a']]
            k = {kk: m.setdefault(v, rng.choice(vals)) for kk, v in c['k'].items()}
            pool.append({'a': a, 'k': k})
    seq = [rng.randrange(len(pool)) for _ in range(rng.randint(3, 14))]
    stack = rng.choice([['cache'], ['cache'], ['cache', 'kwargs_support'], ['try_none', 'cache'], ['cache', 'loop_list']])
    if 'kwargs_support' in stack and sig['varkw']:
        stack = ['cache']
    if any(isinstance(v, (list, dict)) for c_ in pool for v in list(c_['a']) + list(c_['k'].values())):
        stack = ['cache']            # list arguments: loop(list) would loop over them
    return {'kind': 'cache', 'factory': rng.random() < 0.3, 'sig': sig, 'pool': pool, 'seq': seq, 'ret': rng.choice(['tuple', 'none', 'zero', 'empty', 'false', 'tuple']), 'stack': stack}


def plan(tier, seed, n):
    sigs = all_sigs()
    return [{'sigs': sigs[i::n], 'ncache': 120 if tier == 'quick' else 6000, 'stacks': 3 if tier == 'quick' else 40, 'cap': 20 if tier == 'quick' else 80} for i in range(n)]


def run(spec, ctx):
    rng = random.Random('C18/%d/%d' % (spec['seed'], spec['shard']))
    for sig in spec['sigs']:
        calls = valid_calls(sig, rng, cap=spec['cap'])
        stacks = [[d] for d in DNAMES] + [gen_stack(rng) for _ in range(spec['stacks'] * 6)]
        for call in calls:
            for stack in (stacks if spec['tier'] == 'thorough' else rng.sample(stacks, min(len(stacks), 9))):
                case = {'kind': 'sig', 'sig': sig, 'stack': stack, 'call': call}
                if rng.random() < 0.3:
                    # other kinds of argument values: None, falsy values, numpy integer scalars
                    pool_ = [[3, 4], [], [7]] if 'loop_list' not in stack else []      # a list is one argument, also as the only surplus positional
                    sub = lambda v: rng.choice([v, v, {'$np': ['int64', v]}, {'$np': ['int32', v]}, None, None, 0, '', False] + pool_)
                    case['call'] = {'a': [sub(v) for v in call['a']], 'k': {n_: sub(v) for n_, v in call['k'].items()}}
                case['raise_flag'] = rng.choice(['RAISE', 'RAISE', 'RAISE0', 'RAISE2'])
                if rng.random() < 0.1:
                    case['names'] = rng.choice([['_a', 'b', 'c', 'd'], ['a', '_b', 'c', 'd'], ['_x', 'y', '_z', 'w'], ['x', 'y', 'z', 'w']])
                ctx.case(case)
                ctx.run_case(case, run_case)
                if ctx.full():
                    return
    for types in ('list', 'all'):
        for by in ('kw', 'pos'):
            for a_ in (1, 'x', None, 2.5):
                for ax in (0, 1, 'rows'):
                    case = {'kind': 'axis', 'types': types, 'by': by, 'a': a_, 'axis': ax}
                    ctx.case(case)
                    ctx.run_case(case, run_case)
    for k_ in (0, 1, 2, 4):
        for j_ in (0, 1, 2, 3, 5, 6):
            for rv in (True, False):
                for form in ('ctor', 'factory'):
                    case = {'kind': 'retry', 'repeat': k_, 'fails': j_, 'return_value': rv, 'form': form, 'value': rng.choice([None, 0, -1, [], 'n/a'])}
                    ctx.case(case)
                    ctx.run_case(case, run_case)
    for exc in ('idx', ['idx'], ['idx', 'other']):
        for form in ('direct', 'factory'):
            for idx in ('int_array', 'list', 'int_series', 'nested', 'int'):
                for first in ('float', 'list', 'farray', 'str'):
                    case = {'kind': 'exc', 'exc': exc, 'form': form, 'idx': idx, 'first': first}
                    ctx.case(case)
                    ctx.run_case(case, run_case)
    for i in range(spec['ncache']):
        case = gen_cache_case(rng)
        ctx.case(case)
        ctx.run_case(case, run_case)
        if ctx.full():
            return


def replay(case, ctx):
    ctx.case(case)
    ctx.run_case(case, run_case, shrink=False)
