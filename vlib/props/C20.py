"""C20 - perdictable evaluates a function once per row of the keyed join of its inputs; join with defaults; expiry gating.

Monitor shape: keyed-join reference model + call recorder inside the lifted function (how often and with what arguments f was
evaluated is read from one history)."""
import random, datetime
from .. import core, codec
from ..core import same, HarnessError, snap, snap_same

ID = 'C20'
TITLE = 'perdictable: once per row of the keyed join; defaults; expiry gating'
LEVEL = 'exploration'
TECHNIQUE = 'runtime monitoring: keyed-join reference model + call recorder inside the lifted function (exactly-once, with what arguments) + warm-up call sequences'
LEVEL_TEXT = 'Held on the input sets explored (scalars/tables over 1-2 key columns, defaults, previous data with past/future/None/absent expiry). A check says held on K observed executions, never verified.'
LEVEL_NOTE = 'Trusted: the join model; cases are well posed (an un-defaulted table carries the full key set).'
RULE = ('random sets of 1-4 inputs, each a scalar or a table over one or two key columns (homogeneous str or int keys, unique per table) with overlapping / disjoint / empty key sets, '
        'any subset of inputs with defaults, previous data for a subset of keys and expiry in {absent, clearly past, clearly future, None} for keys that have previous data; join() directly with '
        'the same inputs; non-trivial = >=2 table inputs with partial key overlap, or a mix of past/future/None expiries; distinct = canonical hash')
RULE_ALSO = '; added by the coverage audit and round 8: incremental functions f(..., data = <start>) fed their previous output'
ASSUMPTIONS = ["key columns in `on` are listed in alphabetical order (the library sorts multi-column keys by column name)", 'at least one table input has no default',
               'expiry is only assigned to keys that have previous data (as the quantifier says)', 'zero common keys: None or an empty table are both accepted',
               'value columns are named after the input, `data`, or are the single non-key column']
PAST = datetime.datetime(2000, 1, 1)
FUTURE = datetime.datetime(2200, 1, 1)


def _exp(kind):
    """expiry kinds -> values; 'today' is today's date at 00:00: not in the past"""
    today = datetime.datetime.now().replace(hour=0, minute=0, second=0, microsecond=0)
    return {'past': PAST, 'future': FUTURE, 'none': None, 'today': today, 'yesterday': today - datetime.timedelta(1)}[kind]


def required(tier):
    return {'perdictable_rows_model': 300, 'calls_exactly_once_per_recomputed_row': 300, 'expired_rows_keep_value_no_call': 60, 'all_scalar_returns_f': 40, 'join_model': 300, 'sorted_by_key': 300}


def kval(kt, i):
    if kt == 'tup':
        return ('c%d' % (i % 3), 'k%d' % i)       # a key that is itself a pair (a currency pair, (exchange, ticker)): one value of one key column
    return ('k%d' % i) if kt == 'str' else i


def build_table(spec, name, kt):
    from pyg_base import dictable
    cols = {c: [kval(kt, r[c]) for r in spec['rows']] for c in spec['on']}
    cols[spec['col']] = [r['v'] for r in spec['rows']]
    if not spec['rows']:
        return dictable([], list(cols))
    return dictable(cols)


def model_join(inputs, on, defaults, kt):
    """inputs: {name: scalar-term | table-spec}. returns list of {on..., name: value} rows sorted by key, or None if no tables"""
    tables = {n: s for n, s in inputs.items() if isinstance(s, dict) and 'rows' in s}
    scalars = {n: s for n, s in inputs.items() if n not in tables}
    if not tables:
        return None
    nodef = [n for n in tables if n not in defaults]
    wdef = [n for n in tables if n in defaults]

    def natural(rows_a, cols_a, spec, name):
        """natural inner join on common key columns"""
        out = []
        for ra in rows_a:
            for rb in spec['rows']:
                if all(ra[c] == rb[c] for c in spec['on'] if c in cols_a):
                    r = dict(ra)
                    for c in spec['on']:
                        r[c] = rb[c]
                    r[name] = rb['v']
                    out.append(r)
        return out, list(dict.fromkeys(list(cols_a) + spec['on']))
    rows, cols = [{}], []
    for n in nodef:
        rows, cols = natural(rows, cols, tables[n], n)
    if nodef:
        for n in wdef:
            spec = tables[n]
            new = []
            for ra in rows:
                m = [rb for rb in spec['rows'] if all(ra.get(c) == rb[c] for c in spec['on'] if c in cols)]
                if m:
                    for rb in m:
                        r = dict(ra); r.update({c: rb[c] for c in spec['on']}); r[n] = rb['v']; new.append(r)
                else:
                    r = dict(ra); r[n] = defaults[n]; new.append(r)
            rows = new
    else:
        raise HarnessError('no table without default')
    for r in rows:
        for n, v in scalars.items():
            r[n] = v
    rows.sort(key=lambda r: tuple(kval(kt, r[c]) for c in on if c in r))       # by the key values as the tables hold them ('k11' sorts before 'k3')
    return rows


def run_alldef(case, ctx):
    """every table input is named in defaults: the join is the full outer join, each input supplying its default on the keys it lacks"""
    from pyg_base import perdictable, dictable
    from pyg_base._perdictable import join
    kt, on = case['kt'], case['on']
    case = dict(case, defaults={n: codec.dec(v) for n, v in case['defaults'].items()})        # (a default may be an array: one value, like any other)
    names = list(case['inputs'])
    live = {n: (build_table(s, n, kt) if isinstance(s, dict) and 'rows' in s else codec.dec(s)) for n, s in case['inputs'].items()}
    tabs = [n for n in names if isinstance(case['inputs'][n], dict) and 'rows' in case['inputs'][n]]
    snaps = {n: snap(dict(live[n])) for n in tabs}
    keys = sorted({tuple(r[c] for c in on) for n in tabs for r in case['inputs'][n]['rows']})
    exp = []
    for k in keys:
        row = {c: kval(kt, v) for c, v in zip(on, k)}
        for n in names:
            if n in tabs:
                m = [r['v'] for r in case['inputs'][n]['rows'] if tuple(r[c] for c in on) == k]
                row[n] = m[0] if m else case['defaults'][n]
            else:
                row[n] = live[n]
        exp.append(row)
    exp.sort(key=lambda r: tuple(r[c] for c in on))
    dflt = dict(case['defaults'])
    st, res = ctx.call(join, dict(live), list(on), None, dflt)
    ok = st == 'ok' and type(res) is dictable and len(res) == len(exp) and (not exp or (sorted(res.keys()) == sorted(list(on) + names) and all(same(dict(a), b) for a, b in zip(res, exp))))
    ctx.check('join_model', ok, lambda: 'join(%r, on=%r, defaults=%r) with every table defaulted = %s %r\nmodel rows %r' % (case['inputs'], on, case['defaults'], st, [dict(r) for r in res] if st == 'ok' and isinstance(res, dict) else res, exp))
    ctx.check('operands_unchanged', all(snap_same(snap(dict(live[n])), s_) for n, s_ in snaps.items()) and list(dflt) == list(case['defaults']) and all(dflt[k_] is case['defaults'][k_] for k_ in dflt), lambda: 'join modified an input table / the defaults')
    # the lifted function over the same inputs
    log = []
    g = {'_log': log}
    exec('def f(%s):\n    _log.append((%s))\n    return ("f", %s)\n' % (', '.join(names), ''.join(n + ', ' for n in names), ''.join(n + ', ' for n in names)), g)
    p = perdictable(g['f'], on=list(on), defaults=dict(case['defaults']))
    st, res = ctx.call(p, **live)
    if exp:
        expv = [(tuple(r[c] for c in on), ('f',) + tuple(r[n] for n in names)) for r in exp]
        ok = st == 'ok' and type(res) is dictable and len(res) == len(expv) and all(same((tuple(r[c] for c in on), r['data']), e) for r, e in zip(res, expv))
        ctx.check('perdictable_rows_model', ok, lambda: 'perdictable(f, on=%r, defaults=%r)(%r) = %s %r\nmodel %r' % (on, case['defaults'], case['inputs'], st, [dict(r) for r in res] if st == 'ok' and isinstance(res, dict) else res, expv))
        ctx.check('calls_exactly_once_per_recomputed_row', sorted(map(repr, log)) == sorted(repr(e[1][1:]) for e in expv), lambda: 'f evaluated with %r, expected once per row of %r' % (log, expv))
    if len(tabs) >= 3:
        ctx.mark_nontrivial(case)
    ctx.cls('all_tables_defaulted:%d' % len(tabs))


def gen_alldef(rng):
    kt = rng.choice(['str', 'int', 'str', 'int', 'tup'])
    on = rng.choice([['k1'], ['k1'], ['k1', 'k2']])
    universe = [dict(zip(on, t)) for t in ([(i,) for i in range(5)] if len(on) == 1 else [(i, j) for i in range(3) for j in range(2)])]
    names = ['a', 'b', 'c', 'd'][:rng.randint(2, 4)]
    inputs, defaults = {}, {}
    for n in names:
        if rng.random() < 0.15 and len(inputs) and n != names[-1]:
            inputs[n] = rng.choice([1, 'sc', None, 2.5])
            continue
        keys = rng.sample(universe, rng.choice([0, 1, 1, 2, 3, len(universe)]))
        inputs[n] = {'on': on, 'col': rng.choice([n, 'data', 'val']), 'rows': [dict(k, v='%s%s' % (n, ''.join(str(k[c]) for c in on))) for k in keys]}
        defaults[n] = rng.choice([None, 'D' + n, 'D' + n, 0])
        if rng.random() < 0.12:
            defaults[n] = {'$arr': ['float64', [1.0, 2.0, 3.0][:rng.choice([1, 2, 3])]]}       # the default is a vector (weights, a curve): every key the input lacks receives that vector
    if not defaults:
        return gen_alldef(rng)
    return {'kind': 'alldef', 'kt': kt, 'on': on, 'inputs': inputs, 'defaults': defaults}


def run_case(case, ctx):
    if case.get('kind') == 'alldef':
        return run_alldef(case, ctx)
    from pyg_base import perdictable, dictable
    from pyg_base._perdictable import join
    day0 = datetime.date.today()
    kt = case['kt']
    on = case['on']
    params = case['params']
    log = []
    plist = ['%s=%r' % (p, case['fdefaults'][p]) if p in case['fdefaults'] else p for p in params]
    if case.get('kwonly_defaults') and case['fdefaults']:
        plist.insert(len(params) - len(case['fdefaults']), '*')        # the defaulted parameters are keyword-only
    src = 'def f(%s):\n    _log.append((%s))\n    return ("f", %s)\n' % (', '.join(plist),
                                                                             ''.join(p + ', ' for p in params), ''.join(p + ', ' for p in params))
    g = {'_log': log}
    exec(src, g)
    f = g['f']
    bound_ = False
    if case.get('partial_bind') in params and case['partial_bind'] in case['inputs'] and case['partial_bind'] in case['fdefaults']:
        bound_ = True
        # the lifted function is a functools.partial that binds, by keyword, a parameter the call also supplies: the supplied input is what f sees
        import functools
        f = functools.partial(f, **{case['partial_bind']: 'BOUND'})
        ctx.cls('lifted_function_is_a_partial')
    inputs_t = {n: (dict(s, rows=[dict(r, v=codec.dec(r['v'])) for r in s['rows']]) if isinstance(s, dict) and 'rows' in s else codec.dec(s)) for n, s in case['inputs'].items()}
    live = {}
    for n, s in inputs_t.items():
        live[n] = build_table(s, n, kt) if isinstance(s, dict) and 'rows' in s else s
    snaps = {n: snap(dict(v)) for n, v in live.items() if isinstance(v, dict)}
    defaults = dict(case['fdefaults'])
    if bound_:
        defaults[case['partial_bind']] = 'BOUND'        # what the partial binds is the parameter's default from now on
    if case.get('defaults') is not None:
        defaults = dict(case['defaults'])
    kw = {'on': on[0] if len(on) == 1 and case.get('on_str') else list(on)}
    if case.get('defaults') is not None:
        kw['defaults'] = dict(case['defaults'])
    # ------------------------------------------------ join() directly
    jdef = {n: v for n, v in defaults.items() if n in inputs_t}
    mrows = model_join(inputs_t, on, jdef, kt)
    if mrows is not None:
        jarg = dict(jdef)
        omitj = [q for q in jdef if isinstance(inputs_t.get(q), dict)]
        if omitj and len(omitj) < len([q for q in inputs_t if isinstance(inputs_t[q], dict) and 'rows' in inputs_t[q]]):
            # an earlier join with the same defaults dict that was not given the defaulted inputs must not change this one
            ctx.call(join, {q: v for q, v in live.items() if q not in omitj}, kw['on'], None, jarg)
            ctx.cls('warmup_join_omitting_defaulted_input')
        stj, jres = ctx.call(join, dict(live), kw['on'], None, jarg)
        names = list(inputs_t)
        okj = stj == 'ok' and type(jres) is dictable and len(jres) == len(mrows)
        if okj and len(mrows):
            kc = [c for c in on if c in mrows[0]]
            okj = sorted(jres.keys()) == sorted(kc + names)
            if okj:
                got = [dict(r) for r in jres]
                exp = [dict({c: kval(kt, r[c]) for c in kc}, **{n: r[n] for n in names}) for r in mrows]
                okj = all(same(a, b) for a, b in zip(got, exp))
        ctx.check('join_model', okj, lambda: 'join(%r, on=%r, defaults=%r) = %s %r\nmodel rows %r' % (inputs_t, on, jdef, stj, [dict(r) for r in jres] if stj == 'ok' else jres, mrows))
    # ------------------------------------------------ perdictable
    prev = case.get('prev')       # {'rows': [{k.., 'v': value, 'exp': 'past'|'future'|'none'|'absent'}], 'on': [...]}
    call_kw = dict(live)
    prev_by_key = {}
    if prev is not None:
        pt = {c: [kval(kt, r[c]) for r in prev['rows']] for c in prev['on']}
        pt['data'] = [r['v'] for r in prev['rows']]
        call_kw['data'] = dictable(pt) if prev['rows'] else dictable([], list(pt))
        exprows = [r for r in prev['rows'] if r['exp'] != 'absent']
        if case.get('expiry_scalar') is not None:
            call_kw['expiry'] = _exp(case['expiry_scalar'])
        elif exprows:
            et = {c: [kval(kt, r[c]) for r in exprows] for c in prev['on']}
            et['expiry'] = [_exp(r['exp']) for r in exprows]
            call_kw['expiry'] = dictable(et)
        for r in prev['rows']:
            e = case['expiry_scalar'] if case.get('expiry_scalar') is not None else r['exp']
            prev_by_key[tuple(r[c] for c in prev['on'])] = (r['v'], e)
    COL = case.get('col') or 'data'
    if case.get('col'):
        kw['col'] = case['col']                  # the output column under another name
    if case.get('include_inputs'):
        kw['include_inputs'] = True              # the inputs listed next to the output: extra columns, same rows, same values
    if case.get('output_is_input') is not None:
        kw['output_is_input'] = case['output_is_input']      # whether f is shown its own previous output: no bearing on which rows keep their value
    p = perdictable(f, **kw)
    if case.get('defaults') is not None:
        # an earlier call on the same lifted function that leaves a defaulted input to f's own default must not change later calls
        omit = [q for q in call_kw if q in case['defaults'] and q in case['fdefaults'] and isinstance(inputs_t.get(q), dict)]
        if omit:
            ctx.call(p, **{q: v for q, v in call_kw.items() if q not in omit})
            ctx.cls('warmup_call_omitting_defaulted_input')
    del log[:]
    if mrows is None and case.get('scalar_cache'):
        call_kw['data'] = case['scalar_cache'][0]
        call_kw['expiry'] = _exp(case['scalar_cache'][1])
    st, res = ctx.call(p, **call_kw)
    calls = list(log)
    if datetime.date.today() != day0 and 'today' in repr(case):
        return          # the calendar day changed while this case ran: 'today' is ambiguous, nothing is claimed
    if mrows is None:
        # all scalars: returns f(...) itself
        exp = ('f',) + tuple(inputs_t.get(q, case['fdefaults'].get(q)) for q in params)
        ctx.check('all_scalar_returns_f', st == 'ok' and same(res, exp) and len(calls) == 1, lambda: 'perdictable(f)(%r) = %s %r (f evaluated %d times), expected f(...) = %r' % (inputs_t, st, res, len(calls), exp))
        ctx.cls('all_scalar')
        return
    exp_rows, exp_calls, kept = [], [], 0
    for r in mrows:
        key = tuple(r[c] for c in (prev['on'] if prev else []))
        pv = prev_by_key.get(key) if prev else None
        args = tuple((pv[0] if (q == 'data' and case.get('incremental') and pv is not None) else r[q] if q in r else case['fdefaults'][q]) for q in params)
        if pv is not None and pv[1] in ('past', 'yesterday'):
            val = pv[0]; kept += 1
        else:
            val = ('f',) + args
            exp_calls.append(args)
        exp_rows.append((tuple(kval(kt, r[c]) for c in on if c in r), val))
    if not mrows:
        ok0 = st == 'ok' and (res is None or (isinstance(res, dict) and len(res) == 0) or (prev is not None and res is call_kw.get('data')))
        ctx.check('perdictable_rows_model', ok0 and not calls, lambda: 'no common keys: perdictable returned %s %r with %d evaluations' % (st, res, len(calls)))
        ctx.cls('zero_common_keys')
        return
    kc = [c for c in on if c in mrows[0]]
    ok = st == 'ok' and type(res) is dictable and len(res) == len(exp_rows) and \
        (sorted(res.keys()) == sorted(kc + [COL]) if not case.get('include_inputs') else set(kc + [COL]) <= set(res.keys()))
    if ok:
        got = [(tuple(r[c] for c in kc), r[COL]) for r in res]
        ok = all(same(a, b) for a, b in zip(got, exp_rows))
    ctx.check('perdictable_rows_model', ok, lambda: 'perdictable(f, on=%r)(%r, prev=%r, expiry_scalar=%r) = %s %r\nmodel %r' % (on, inputs_t, prev, case.get('expiry_scalar'), st, [dict(r) for r in res] if st == 'ok' and isinstance(res, dict) else res, exp_rows))
    if st == 'ok' and type(res) is dictable and len(res) > 1:
        ks = [tuple(r[c] for c in kc) for r in res]
        ctx.check('sorted_by_key', ks == sorted(ks), lambda: 'rows not sorted by key: %r' % ks)
    ctx.check('calls_exactly_once_per_recomputed_row', sorted(map(repr, calls)) == sorted(map(repr, exp_calls)), lambda: 'f evaluated with %r, expected exactly %r (kept rows: %d)' % (calls, exp_calls, kept))
    if kept:
        ctx.monitors['expired_rows_keep_value_no_call'] += kept
    ctx.check('operands_unchanged', all(snap_same(snap(dict(live[n])), s) for n, s in snaps.items()), lambda: 'perdictable/join modified an input table')
    ntab = sum(1 for s in inputs_t.values() if isinstance(s, dict) and 'rows' in s)
    keysets = [frozenset(tuple(r[c] for c in s['on']) for r in s['rows']) for s in inputs_t.values() if isinstance(s, dict) and 'rows' in s and s['on'] == on]
    partial = len(keysets) >= 2 and any(a != b and a & b for a in keysets for b in keysets)
    exps = {e for _, e in prev_by_key.values()} if prev else set()
    if (ntab >= 2 and partial) or len(exps & {'past', 'future', 'none'}) >= 2:
        ctx.mark_nontrivial(case)
    ctx.cls('tables:%d' % ntab)
    if prev:
        ctx.cls('with_prev_data')
    if case.get('defaults') is not None or case['fdefaults']:
        ctx.cls('with_defaults')
    if case.get('incremental'):
        ctx.cls('incremental_function_fed_its_previous_output')


def gen_case(rng):
    kt = rng.choice(['str', 'int', 'str', 'int', 'tup'])
    on = rng.choice([['k1'], ['k1'], ['k1', 'k2'], ['k2', 'k1']])         # 'sorted by key': by the key columns in the order they are given
    nparams = rng.randint(1, 4)
    params = ['a', 'b', 'c', 'd'][:nparams]
    nfdef = rng.choice([0, 0, 1]) if nparams > 1 else 0
    fdefaults = {p: 700 + i for i, p in enumerate(params[nparams - nfdef:])}
    universe = [dict(zip(on, t)) for t in ([(i,) for i in range(5)] if len(on) == 1 else [(i, j) for i in range(3) for j in range(2)])]
    if rng.random() < 0.03:
        universe = [dict(zip(on, t)) for t in ([(i,) for i in range(70)] if len(on) == 1 else [(i, j) for i in range(12) for j in range(6)])]      # a few long key sets in every tier
    inputs = {}
    any_table_nodef = False
    all_scalar = rng.random() < 0.08
    explicit_defaults = {} if rng.random() < 0.25 else None
    for p in params:
        if p in fdefaults and rng.random() < 0.3:
            continue    # leave to f's default
        if all_scalar or rng.random() < 0.3:
            inputs[p] = rng.choice([1, 2, 'sc', None, 2.5, [7], [1, 2], [1, 2, 3], {'$t': [5, 6]}])
            continue
        t_on = on if (len(on) == 1 or rng.random() < 0.7) else ['k1']
        if t_on == on:
            keys = rng.sample(universe, rng.choice([0, 1, 2, 3, len(universe)]))
        else:
            ks = sorted({u['k1'] for u in universe})
            keys = [{'k1': k} for k in rng.sample(ks, rng.randint(0, len(ks)))]
        col = rng.choice([p, 'data', 'val'])
        vmode = rng.random()
        def val(k):
            if vmode < 0.2:
                return rng.choice(['tie', 'tie', 7, None])
            if vmode < 0.35 and rng.random() < 0.4:
                return {'$nan': rng.randrange(20)}          # a missing print is a value of the table like any other: the key is present        # equal values on several keys, None as a genuine value
            if vmode < 0.3 and rng.random() < 0.3:
                return None
            return '%s%s' % (p, ''.join(str(k[c]) for c in t_on))
        inputs[p] = {'on': t_on, 'col': col, 'rows': [dict(k, v=val(k)) for k in keys]}
        has_def = p in fdefaults
        if explicit_defaults is not None and (rng.random() < 0.4 or (p in fdefaults and rng.random() < 0.7)):
            explicit_defaults[p] = 'D' + p
            has_def = True
        elif explicit_defaults is not None:
            has_def = False
        if not has_def:
            any_table_nodef = True
    if explicit_defaults is not None:
        # explicit defaults replace f's own defaults in the join: every parameter must then be supplied
        for p in params:
            if p not in inputs:
                inputs[p] = 'sc' + p
    tables = [p for p, s in inputs.items() if isinstance(s, dict) and 'rows' in s]
    if tables and not any_table_nodef:
        p = tables[0]
        if explicit_defaults is not None:
            explicit_defaults.pop(p, None)
        if p in fdefaults and explicit_defaults is None:
            fdefaults = {}
            for q in params:
                inputs.setdefault(q, 'sc' + q)
    if tables and not any(inputs[p]['on'] == on and p not in fdefaults and not (explicit_defaults or {}).get(p) for p in tables):
        # at least one un-defaulted table is keyed by the full key set
        p = [q for q in tables if q not in fdefaults and not (explicit_defaults or {}).get(q)]
        if p:
            t = inputs[p[0]]
            t['on'] = on
            keys = rng.sample(universe, rng.choice([0, 1, 2, 3, len(universe)]))
            t['rows'] = [dict(k, v='%s%s' % (p[0], ''.join(str(k[c]) for c in on))) for k in keys]
    case = {'kt': kt, 'on': on, 'on_str': rng.random() < 0.5, 'params': params, 'fdefaults': fdefaults, 'inputs': inputs, 'defaults': explicit_defaults}
    if rng.random() < 0.1 and inputs:
        case['partial_bind'] = rng.choice(sorted(inputs))
    if fdefaults and rng.random() < 0.35:
        case['kwonly_defaults'] = True
    if not tables and all(p in inputs for p in params) and rng.random() < 0.5:
        # all inputs scalars, one of them called 'data' (the name under which a function sees its own previous output) holding a compound value
        last = params[-1]
        case['params'] = params[:-1] + ['data']
        inputs['data'] = rng.choice([{'$t': [5, 6]}, [1, 2], [7], 3, 'sc', {'$t': [1, 2, 3]}])
        inputs.pop(last, None)
        if last in fdefaults:
            case['fdefaults'] = {}
            for q in case['params']:
                inputs.setdefault(q, 'sc' + q)
    if rng.random() < 0.3 and 'data' not in case['params']:
        case['output_is_input'] = rng.choice([False, 'something_else', []])
    if not tables and 'data' not in case['params'] and rng.random() < 0.5:
        case['scalar_cache'] = [rng.choice([99, None, 'old']), rng.choice(['past', 'past', 'future', 'none'])]
    if tables and rng.random() < 0.2 and 'data' not in case['params']:
        case['include_inputs'] = rng.random() < 0.6
        if rng.random() < 0.6:
            case['col'] = rng.choice(['out', 'value'])
        return case          # (no previous data in these cases: it would have to be handed over under the new name)
    if tables and rng.random() < 0.6:
        full = [s for s in inputs.values() if isinstance(s, dict) and 'rows' in s and s['on'] == on]
        pool = universe
        rows = []
        whole = rng.random() < 0.25
        for k in (pool if whole else rng.sample(pool, rng.randint(0, len(pool)))):
            rows.append(dict(k, v=(None if rng.random() < 0.15 else 'old%s' % ''.join(str(k[c]) for c in on)), exp=rng.choice(['absent', 'past', 'past', 'future', 'none', 'today', 'yesterday'])))
        case['prev'] = {'on': on, 'rows': rows}
        if rng.random() < 0.3 and 'data' not in case['params'] and case['defaults'] is None and case.get('output_is_input') is None and not case.get('kwonly_defaults'):
            # an incremental function: it takes its own previous output (`data`) and declares what it starts from as that parameter's default;
            # a key the previous result lacks is computed from that default, a key it has (and that is due) from its previous value
            case['incremental'] = True
            case['params'] = list(case['params']) + ['data']
            case['fdefaults'] = dict(case['fdefaults'], data='start')
            for r in rows:
                if r['v'] is None:
                    r['v'] = 'old%s' % ''.join(str(r[c]) for c in on)
        if rows and whole and rng.random() < 0.7:
            case['expiry_scalar'] = rng.choice(['past', 'future', 'none'])
            for r in rows:
                r['exp'] = 'absent'
    return case


def well_posed(case):
    """some table input without a default is keyed by the full key set (so the key set of the join is well defined)"""
    tabs = {n: t for n, t in case['inputs'].items() if isinstance(t, dict) and 'rows' in t}
    if not tabs:
        return True
    dflt = case['defaults'] if case['defaults'] is not None else case['fdefaults']
    return any(t['on'] == case['on'] and n not in dflt for n, t in tabs.items())


def plan(tier, seed, n):
    per = 400 if tier == 'quick' else 15000
    return [{'n': per} for _ in range(n)]


def run(spec, ctx):
    for i in range(spec['n']):
        rng = random.Random('C20/%d/%d/%d' % (spec['seed'], spec['shard'], i))
        if rng.random() < 0.12:
            case = gen_alldef(rng)
        else:
            case = gen_case(rng)
            while not well_posed(case):
                case = gen_case(rng)
        ctx.case(case)
        ctx.run_case(case, run_case)
        if ctx.full():
            break


def replay(case, ctx):
    ctx.case(case)
    ctx.run_case(case, run_case, shrink=False)
