"""C06 - inc and exc partition a table; both keep the columns and the row order; find_<col>.

Monitor shape: row-filter reference model; every row carries a unique id so order and membership are unambiguous."""
import random, re
from .. import core, codec, gen
from ..core import same, HarnessError

ID = 'C06'
TITLE = 'inc / exc partition a table'
LEVEL = 'exploration'
TECHNIQUE = 'runtime monitoring: row-filter reference model with unique row ids; partition / idempotence / find_ laws'
LEVEL_TEXT = 'Held on the tables x conditions explored (keyword value/list/None/NaN/regex, dict filters, single callables incl. truthy non-bool results). A check says held on K observed executions, never verified.'
LEVEL_NOTE = 'Trusted: Python `in` semantics for value matching; inf cells and NaN inside value lists are not generated.'
RULE = ('random tables (0-20 rows, cells None/int/float/NaN/str, unique id column) x conditions (1-3 keyword filters of value / list / None / NaN / '
        'compiled regex, dict filter, or one callable over named columns incl. predicates returning truthy non-bool values); '
        'non-trivial = the condition selects a non-empty proper subset, or mixes None and NaN conditions; distinct = canonical hash of the case')
RULE_ALSO = '; added by the coverage audit and round 8: columns called self / other / cls; predicates naming columns through keyword-only parameters or functools.partial'
ASSUMPTIONS = ['+-inf cells: the documented is_nan counts inf as NaN, so under a NaN condition only the partition (exc = complement of inc, order, columns) is claimed for tables holding inf; under every other condition inf is an ordinary value', 'NaN is not placed inside lists of admissible values',
               'a callable is not combined with keyword filters (outside the quantifier: exc is then not the complement of inc)',
               'value matching follows Python `in` (identity or ==), so 1 matches 1.0']


def required(tier):
    return {'inc_rows_model': 300, 'exc_rows_model': 300, 'partition': 300, 'columns_kept': 300, 'inc_idempotent': 300, 'find_unique': 100, 'inc_noarg_identity': 50}


PRED = {
    'gt1': lambda v: isinstance(v, (int, float)) and v > 1,
    'isstr': lambda v: isinstance(v, str),
    'mod2': lambda v: v % 2 if isinstance(v, int) else 0,
    'noneyes': lambda v: None if v is None else 'yes',
    'true': lambda v: True,
    'false': lambda v: False,
    'one': lambda v: 1,
    'zero': lambda v: 0,
    'len': lambda v: len(v) if isinstance(v, str) else 0.0,
}


def mk_pred(spec):
    shape = spec.get('shape')          # how the predicate declares the columns it names: plainly, as keyword-only parameters with a default, or through functools.partial
    if spec['fn'] == 'eq2':
        a, b = spec['args']
        if shape == 'kwonly':
            return eval('lambda %s, *, %s="__dflt__": %s == %s' % (a, b, a, b)), (lambda row: row[a] == row[b])
        if shape == 'partial':
            import functools
            return functools.partial(eval('lambda %s, bound__=0, %s="__dflt__": bound__ == 1 and %s == %s' % (a, b, a, b)), bound__=1), (lambda row: row[a] == row[b])
        return eval('lambda %s, %s: %s == %s' % (a, b, a, b)), (lambda row: row[a] == row[b])
    a = spec['args'][0]
    p = PRED[spec['fn']]
    if shape == 'kwonly':
        f = eval('lambda *, %s="__dflt__": p(%s)' % (a, a), {'p': p})
    elif shape == 'partial':
        import functools
        f = functools.partial(eval('lambda bound__=0, %s="__dflt__": p(%s) if bound__ == 1 else None' % (a, a), {'p': p}), bound__=1)
    else:
        f = eval('lambda %s: p(%s)' % (a, a), {'p': p})
    return f, (lambda row: p(row[a]))


def _isnan(v):
    import numpy as np
    return isinstance(v, (float, np.floating)) and bool(v != v)


def match(v, cond):
    if cond is None:
        return v is None
    if _isnan(cond):
        return _isnan(v)
    if isinstance(cond, re.Pattern):
        return isinstance(v, str) and cond.search(v) is not None
    lst = cond if isinstance(cond, list) else [cond]
    return any(v is x or v == x for x in lst)


def run_case(case, ctx):
    from pyg_base import dictable
    sess = codec._Session()
    cols = {c: codec.dec(v, sess) for c, v in case['cols'].items()}
    n32 = {}
    if case.get('nan32'):
        # the NaNs as single-precision numpy scalars (cells read from a float32 array): one float32 object per NaN object, so what is shared stays shared
        import numpy as np

        def to32(v):
            if isinstance(v, list):
                return [to32(x) for x in v]
            if isinstance(v, float) and v != v:
                return n32.setdefault(id(v), np.float32('nan'))
            return v
        cols = {c: to32(v) for c, v in cols.items()}
        ctx.cls('nan_cells_and_conditions_as_float32')
    n = len(cols['id'])
    d = dictable(cols) if n else dictable([], list(cols))
    rows = [dict(r) for r in d]
    if len(rows) != n:
        raise HarnessError('construction')
    cond = case['cond']
    if 'fn' in cond:
        f, mf = mk_pred(cond)
        args, kw = (f,), {}
        sel = [bool(mf(r)) for r in rows]
    else:
        conds = {c: codec.dec(v, sess) for c, v in cond['kw'].items()}
        if case.get('nan32'):
            conds = {c: to32(v) for c, v in conds.items()}
        if cond.get('as') == 'dict':
            args, kw = (dict(conds),), {}
        elif cond.get('as') in ('Dict', 'dictattr'):
            # the conjunction held in one of the library's own mappings (e.g. a row taken from another table)
            import pyg_base as _pb
            args, kw = (getattr(_pb, cond['as'])(conds),), {}
        elif cond.get('as') == 'split' and len(conds) >= 2:
            ks = list(conds)
            args, kw = ({k: conds[k] for k in ks[:1]},), {k: conds[k] for k in ks[1:]}       # one conjunction spread over a dict filter and keywords
        elif cond.get('as') == 'two_dicts' and len(conds) >= 2:
            ks = list(conds)
            args, kw = ({k: conds[k] for k in ks[:1]}, {k: conds[k] for k in ks[1:]}), {}
        elif cond.get('as') == 'list_of_dicts' and len(conds) >= 1:
            ks = list(conds)
            args, kw = ([{k: conds[k] for k in ks[:1]}] + ([{k: conds[k] for k in ks[1:]}] if len(ks) > 1 else []),), {}        # the conditions as ONE list of dict filters, kept and used again by the caller
        else:
            args, kw = (), conds
        if 'self' in kw:
            args, kw = args + ({'self': kw['self']},), {k: v for k, v in kw.items() if k != 'self'}      # no Python method takes a keyword called self: that condition goes in a dict filter
        sel = [all(match(r[c], v) for c, v in conds.items()) for r in rows]
    exp_inc = [r['id'] for r, s in zip(rows, sel) if s]
    exp_exc = [r['id'] for r, s in zip(rows, sel) if not s]
    snap0 = core.snap(dict(d))

    def fresh_args():
        return tuple(type(a)(a) if isinstance(a, dict) else a for a in args), dict(kw)
    list_args = [(a, list(a)) for a in args if isinstance(a, list)]
    a1, k1 = fresh_args()
    keep1 = [dict(a) if isinstance(a, dict) else a for a in a1]
    st, inc = ctx.call(d.inc, *a1, **k1)
    ctx.check('operands_unchanged', all((not isinstance(a, dict)) or (list(a.keys()) == list(b.keys()) and all(a[k] is b[k] or a[k] == b[k] or (a[k] != a[k]) for k in a)) for a, b in zip(a1, keep1)), lambda: 'inc edited the filter dict it was given: %r' % (a1,))
    a2, k2 = fresh_args()
    keep2 = [dict(a) if isinstance(a, dict) else a for a in a2]
    st2, exc = ctx.call(d.exc, *a2, **k2)
    ctx.check('operands_unchanged', all((not isinstance(a, dict)) or (list(a.keys()) == list(b.keys()) and all(a[k] is b[k] or a[k] == b[k] or (a[k] != a[k]) for k in a)) for a, b in zip(a2, keep2)), lambda: 'exc edited the filter dict it was given: %r -> %r' % (keep2, a2))
    ctx.check('operands_unchanged', all(len(a) == len(b) and all(x is y for x, y in zip(a, b)) for a, b in list_args), lambda: 'inc / exc edited the list of dict filters it was given: %r -> %r' % ([b for _, b in list_args], [a for a, _ in list_args]))
    if st != 'ok' or st2 != 'ok':
        ctx.ev('inc_rows_model')
        ctx.fail('inc_rows_model', 'inc/exc raised: %s / %s' % (inc if st != 'ok' else 'ok', exc if st2 != 'ok' else 'ok'))
        return
    full = lambda t, ids: type(t) is dictable and list(t['id']) == ids and all(same(dict(r), rows[ids_index[r['id']]]) for r in t)
    ids_index = {r['id']: i for i, r in enumerate(rows)}
    # +-inf cells under a NaN condition: the library deliberately counts inf as NaN on both sides; only the partition is claimed there
    inf_vs_nan = 'kw' in cond and any(isinstance(v, dict) and '$nan' in v for v in cond['kw'].values()) and any(isinstance(x, float) and abs(x) == float('inf') for r in rows for x in r.values())
    nan_in_list = 'kw' in cond and any(isinstance(v, list) and any(isinstance(x, dict) and '$nan' in x for x in v) for v in cond['kw'].values())
    if nan_in_list:
        ctx.cls('nan_inside_value_list')
    inf_vs_nan = inf_vs_nan or nan_in_list      # whether a NaN cell 'is in' a list holding a NaN is Python's identity-or-== rule: only the partition is claimed
    if inf_vs_nan:
        exp_inc = list(inc.get('id')) if hasattr(inc, 'get') else exp_inc
        exp_exc = [i for i in [r['id'] for r in rows] if i not in set(exp_inc)]
    ctx.check('inc_rows_model', full(inc, exp_inc), lambda: 'inc ids %s, model %s; rows %s' % (list(inc.get('id')), exp_inc, [dict(r) for r in inc]))
    ctx.check('exc_rows_model', full(exc, exp_exc), lambda: 'exc ids %s, model %s' % (list(exc.get('id')), exp_exc))
    merged = sorted(list(inc.get('id')) + list(exc.get('id')))
    ctx.check('partition', merged == sorted(ids_index) and not (set(inc.get('id')) & set(exc.get('id'))), lambda: 'inc %s + exc %s != table %s' % (list(inc.get('id')), list(exc.get('id')), sorted(ids_index)))
    ctx.check('columns_kept', sorted(inc.keys()) == sorted(cols) and sorted(exc.keys()) == sorted(cols), lambda: 'columns inc %s exc %s table %s' % (inc.keys(), exc.keys(), list(cols)))
    ctx.check('operands_unchanged', core.snap_same(core.snap(dict(d)), snap0), lambda: 'table modified by inc/exc')
    a3, k3 = fresh_args()
    st3, inc2 = ctx.call(inc.inc, *a3, **k3)
    # results belong to the caller: whatever is done to them, the same selection made again is unaffected
    for res_ in (inc, exc):
        try:
            res_['__seen__'] = True
            del res_[[c for c in cols if c != 'id'][0]]
        except Exception:
            pass
    a8, k8 = fresh_args()
    st8, inc8 = ctx.call(d.inc, *a8, **k8)
    a9, k9 = fresh_args()
    st9, exc9 = ctx.call(d.exc, *a9, **k9)
    ctx.check('results_are_fresh', st8 == 'ok' and st9 == 'ok' and full(inc8, exp_inc) and full(exc9, exp_exc) and sorted(inc8.keys()) == sorted(cols) and sorted(exc9.keys()) == sorted(cols),
              lambda: 'after the caller edited earlier results, the same selection gives inc %s %s / exc %s %s (table columns %s)' % (st8, inc8 if st8 != 'ok' else (list(inc8.keys()), list(inc8.get('id', []))), st9, exc9 if st9 != 'ok' else (list(exc9.keys()), list(exc9.get('id', []))), list(cols)))
    ctx.check('inc_idempotent', st3 == 'ok' and list(inc2.get('id')) == exp_inc and sorted(inc2.keys()) == sorted(cols), lambda: 'inc(inc) = %s vs %s' % (inc2, exp_inc))
    st4, ident = ctx.call(d.inc)
    ctx.check('inc_noarg_identity', st4 == 'ok' and type(ident) is dictable and list(ident.get('id')) == [r['id'] for r in rows] and sorted(ident.keys()) == sorted(cols)
              and all(same(dict(a), b) for a, b in zip(ident, rows)), lambda: 'inc() = %r' % (ident,))
    # find_<col>
    fc = case.get('find')
    if fc and not inf_vs_nan:
        vals = [r[fc] for r, s in zip(rows, sel) if s]
        a5, k5 = fresh_args()
        st5, got = ctx.call(getattr(d, 'find_' + fc), *a5, **k5)
        if vals and all(_isnan(v) and v is vals[0] for v in vals):
            # every selected row holds the very same NaN object: that is the unique value
            ctx.check('find_unique', st5 == 'ok' and _isnan(got), lambda: 'find_%s over %d rows all holding one NaN object -> %s %r (expected that NaN)' % (fc, len(vals), st5, got))
        if not any(_isnan(v) for v in vals):
            distinct = []
            for v in vals:
                if not any(v is x or (v == x and hash(v) == hash(x)) for x in distinct):
                    distinct.append(v)
            if len(distinct) == 1:
                ctx.check('find_unique', st5 == 'ok' and (got is distinct[0] or got == distinct[0]), lambda: 'find_%s -> %s %r, expected %r' % (fc, st5, got, distinct[0]))
            else:
                ctx.check('find_unique', st5 == 'exc' and isinstance(got, ValueError), lambda: 'find_%s with %d distinct values -> %s %r (expected ValueError)' % (fc, len(distinct), st5, got))
        if 'kw' in cond and n >= 2 and fc != 'id' and all(not isinstance(v, (dict, list)) and not isinstance(v, re.Pattern) for a in a5 for v in (a.values() if isinstance(a, dict) else [])):
            # the same lookup on the same table after the looked-up column was reassigned in place: nothing remembered may leak
            newcol = list(d[fc])[1:] + list(d[fc])[:1]
            d[fc] = newcol
            rows2 = [dict(r) for r in d]
            conds2 = {c: codec.dec(v, sess) for c, v in cond['kw'].items()}
            sel2 = [all(match(r[c], v) for c, v in conds2.items()) for r in rows2]
            vals2 = [r[fc] for r, s_ in zip(rows2, sel2) if s_]
            a7, k7 = fresh_args()
            st7, got7 = ctx.call(getattr(d, 'find_' + fc), *a7, **k7)
            if not any(_isnan(v) for v in vals2):
                dist2 = []
                for v in vals2:
                    if not any(v is x or (v == x and hash(v) == hash(x)) for x in dist2):
                        dist2.append(v)
                if len(dist2) == 1:
                    ctx.check('find_unique', st7 == 'ok' and (got7 is dist2[0] or got7 == dist2[0]), lambda: 'find_%s repeated after the column was reassigned -> %s %r, expected %r' % (fc, st7, got7, dist2[0]))
                else:
                    ctx.check('find_unique', st7 == 'exc' and isinstance(got7, ValueError), lambda: 'find_%s repeated after the column was reassigned: %d distinct values -> %s %r (expected ValueError)' % (fc, len(dist2), st7, got7))
            d[fc] = [r[fc] for r in rows]
        a6, k6 = fresh_args()
        st6, one = ctx.call(d.one_or_none, *a6, **k6)
        if len(exp_inc) == 0:
            ctx.check('one_or_none', st6 == 'ok' and one is None, lambda: 'one_or_none on empty selection -> %s %r' % (st6, one))
        elif len(exp_inc) == 1:
            ctx.check('one_or_none', st6 == 'ok' and isinstance(one, dict) and one['id'] == exp_inc[0], lambda: 'one_or_none -> %s %r' % (st6, one))
        else:
            ctx.check('one_or_none', st6 == 'exc' and isinstance(one, ValueError), lambda: 'one_or_none with %d rows -> %s %r' % (len(exp_inc), st6, one))
    # the caller's value lists are the caller's: emptied and refilled with something else after the calls above, they have no say in what a NEW
    # condition, equal to what they used to hold, selects (nothing the library remembers about an earlier condition may point at them)
    lists_ = [v for a in list(args) + [kw] if isinstance(a, dict) for v in a.values() if isinstance(v, list)]
    if lists_ and not inf_vs_nan and 'kw' in cond:
        renew = lambda a: {c: (list(v) if isinstance(v, list) else v) for c, v in a.items()} if isinstance(a, dict) else a
        na, nk = tuple(renew(a) for a in args), renew(kw)
        for l_ in lists_:
            l_[:] = ['__edited_by_the_caller__']
        st10, exc10 = ctx.call(d.exc, *na, **nk)
        st11, inc11 = ctx.call(d.inc, *na, **nk)
        ctx.check('results_are_fresh', st10 == 'ok' and st11 == 'ok' and full(exc10, exp_exc) and full(inc11, exp_inc),
                  lambda: 'after the caller emptied the value lists of the earlier conditions, a new equal condition selects inc %s / exc %s; model %s / %s' % (
                      list(inc11.get('id')) if st11 == 'ok' else inc11, list(exc10.get('id')) if st10 == 'ok' else exc10, exp_inc, exp_exc))
        ctx.cls('value_lists_edited_between_calls')
    k = sum(sel)
    mix = 'kw' in cond and any(v is None for v in cond['kw'].values()) and any(isinstance(v, dict) and '$nan' in v for v in cond['kw'].values())
    if 0 < k < n or mix:
        ctx.mark_nontrivial(case)
    ctx.cls('selects:' + ('none' if k == 0 else 'all' if k == n else 'proper'))
    ctx.cls('cond:' + ('callable:' + cond['fn'] if 'fn' in cond else 'kw%d' % len(cond['kw'])))
    if 'kw' in cond:
        for v in cond['kw'].values():
            ctx.cls('kwkind:' + ('none' if v is None else 'list' if isinstance(v, list) else next(iter(v)) if isinstance(v, dict) else 'value'))


def gen_case(rng):
    n = rng.choice([0, 1, 2, 3, 4, 5, 6, 8, 12, 20])
    if rng.random() < 0.02:
        n = rng.choice([150, 260])        # long tables: any size-dependent path behind the selection
    names = rng.sample(rng.choice([['a', 'b', 'c', 'd'], ['a', 'b', 'c', 'd'], ['rate', 'rate_type', 'day_count', 'day'], ['data', 'columns', 'x', 'key'], ['self', 'a', 'other', 'cls']]), rng.randint(1, 3))
    kinds = {c: rng.choice(['nifs', 'if', 'nf', 's', 'ns', 'nifs']) for c in names}
    cols = {c: [gen.cell(rng, nan=0.15 if 'f' in kinds[c] else 0, kinds=kinds[c]) for _ in range(n)] for c in names}
    cols['id'] = list(range(10, 10 + n))
    if rng.random() < 0.15:
        for c in names:
            if 'f' in kinds[c]:
                cols[c] = [({'$inf': rng.choice([1, -1])} if (not isinstance(v, str) and v is not None and rng.random() < 0.3) else v) for v in cols[c]]
    r = rng.random()
    if r < 0.3:
        fn = rng.choice(list(PRED) + ['eq2'])
        if fn == 'eq2':
            cond = {'fn': 'eq2', 'args': [rng.choice(names), rng.choice(names)]}
            if cond['args'][0] == cond['args'][1]:
                cond = {'fn': 'gt1', 'args': [names[0]]}
        else:
            cond = {'fn': fn, 'args': [rng.choice(names)]}
        if rng.random() < 0.25 and 'self' not in cond['args']:
            cond['shape'] = rng.choice(['kwonly', 'partial'])
    else:
        kw = {}
        for c in rng.sample(names, rng.randint(1, len(names))):
            t = rng.random()
            present = cols[c]
            pick = lambda: (rng.choice(present) if present and rng.random() < 0.7 else gen.cell(rng, nan=0, kinds=kinds[c]))
            if t < 0.3:
                v = pick()
                if isinstance(v, dict):
                    v = {'$nan': 7}
            elif t < 0.5:
                keep_nan = rng.random() < 0.2
                v = [x for x in (pick() for _ in range(rng.choice([1, 2, 3, 9, 12]))) if keep_nan or not isinstance(x, dict)] or [1]
                if keep_nan and rng.random() < 0.6:
                    v.insert(rng.randrange(len(v) + 1), {'$nan': rng.choice([5, 6, 'np'])})
                v = [x for i, x in enumerate(v) if isinstance(x, dict) or not any(x == y and type(x) is type(y) for y in v[:i])]
                if len(v) >= 5:
                    v = v + [7, 8, 9, 'q', 'w', 'e', 5.5, 6.5][:max(0, 10 - len(v))]
                    rng.shuffle(v)
            elif t < 0.65:
                v = None
            elif t < 0.8:
                v = {'$nan': rng.choice([5, 'np'])}
            else:
                v = {'$re': rng.choice(['x', 'y', '1', 'n', '.*', '^$', 'o', '2', '\\.'])}
                if rng.random() < 0.4:
                    v = {'$re': [v['$re'], 2]}          # the same pattern text, case-insensitive (re.I)
                if rng.random() < 0.5:
                    cols[c] = [(x.upper() if isinstance(x, str) and rng.random() < 0.5 else x) for x in cols[c]]
            kw[c] = v
        cond = {'kw': kw, 'as': rng.choice(['kw', 'kw', 'dict', 'split', 'two_dicts', 'Dict', 'dictattr', 'list_of_dicts'])}
    if 'kw' in cond and n and rng.random() < 0.08:
        # a column mixing numbers with strings that spell the same numbers (ids read from two sources), no None: a string condition means the string
        c = names[0]
        pool_ = [1001, '1001', 2.5, '2.5', 'x', 3, '3', 1001]
        cols[c] = [rng.choice(pool_) for _ in range(n)]
        cond = {'kw': {c: rng.choice(['1001', '2.5', ['1001', '3'], ['2.5', 'x'], 1001, [3, '2.5']])}, 'as': rng.choice(['kw', 'dict'])}
    case = {'cols': cols, 'cond': cond}
    if rng.random() < 0.6:
        case['find'] = rng.choice(names + ['id'])
    if 'nan' in repr(case) and rng.random() < 0.15:
        case['nan32'] = True
    return case


def plan(tier, seed, n):
    per = 1000 if tier == 'quick' else 40000
    return [{'n': per} for _ in range(n)]


def run(spec, ctx):
    for i in range(spec['n']):
        rng = random.Random('C06/%d/%d/%d' % (spec['seed'], spec['shard'], i))
        case = gen_case(rng)
        ctx.case(case)
        ctx.run_case(case, run_case)
        if ctx.full():
            break


def replay(case, ctx):
    ctx.case(case)
    ctx.run_case(case, run_case, shrink=False)
