"""C08 - timeseries operators equal the pointwise operation on aligned operands.

Monitor shape: alignment model (index intersection/union, column policy with the operation's neutral element) + pointwise
arithmetic on Python/numpy floats (same float operations => exact comparison), law monitors for commutativity and 'no inf from division'."""
import random, datetime, math
import numpy as np
from .. import core, codec
from ..core import HarnessError

ID = 'C08'
TITLE = 'timeseries operators = pointwise operation on aligned operands'
LEVEL = 'exploration'
TECHNIQUE = 'runtime monitoring: alignment model + pointwise float arithmetic (same numpy float64 operations, exact comparison), commutativity and no-inf law monitors'
LEVEL_TEXT = 'Held on the operand tuples explored for both index and column policies and all listed operators/aggregates. A check says held on K observed executions, never verified.'
LEVEL_NOTE = "Trusted: numpy float64 scalar arithmetic as the pointwise reference; fill methods are C03's; min_/max_ get at most one one-column frame per call (two differently named ones are aligned by label by pandas)."
RULE = ('random tuples of 2-4 operands among Series, 1-3 column DataFrames and scalars on a 12-day grid (overlapping, disjoint, empty indices; values in {-2..3, 0, NaN}), both index '
        'policies x both column policies, operators add/sub/mul/div/pow/gt/ge/lt/le/min/max and df_sum/df_mean/df_count; non-trivial = partially overlapping indices with a zero or NaN in '
        'the overlap, or differing column sets; distinct = canonical hash')
RULE_ALSO = '; 12% of the cases give their operands indices that carry a frequency (pd.date_range), mostly one step with random phases; 3% use a 150-point grid'
ASSUMPTIONS = ['fill methods are not varied here (C03 covers them)', 'multi-column frames in one call share at least one column name; column order of the result is not compared',
               'a single-column frame acts as a series: the result may be a Series or a one-column frame', 'df_sum/df_mean/df_count operands are all Series or all multi-column frames',
               'a scalar-zero denominator returning a scalar NaN (or one NaN per column) is accepted']
T0 = datetime.datetime(2022, 5, 2)
NAN = float('nan')


def required(tier):
    return {'pointwise_model': 500, 'result_index': 500, 'div_no_inf': 100, 'commutative': 150, 'list_reduce_left_to_right': 80, 'aggregates_skip_nan': 100, 'inputs_unmodified': 500}


def isn(v):
    return isinstance(v, float) and v != v


def live(o):
    import pandas as pd
    if o['k'] == 'scalar':
        return NAN if o['v'] is None else o['v']
    idx = pd.DatetimeIndex([T0 + datetime.timedelta(days=i) for i in o['ts']])
    fr = o.get('freq')
    if fr and len(o['ts']) >= 1 and list(o['ts']) == list(range(o['ts'][0], o['ts'][0] + fr * len(o['ts']), fr)):
        # an index that knows its own frequency (pd.date_range / resample / asfreq): two operands may share the step and be out of phase
        idx = pd.date_range(T0 + datetime.timedelta(days=o['ts'][0]), periods=len(o['ts']), freq=datetime.timedelta(days=fr))
    if o.get('dates') and len(o['ts']):
        idx = pd.Index([(T0 + datetime.timedelta(days=i)).date() for i in o['ts']], dtype=object)      # plain datetime.date labels in an object Index (a frame built from dated records)
    f = lambda v: NAN if v is None else float(v)
    if o['k'] == 'series':
        return pd.Series([f(v) for v in o['v']], index=idx, dtype=float)
    mat = np.array([[f(v) for v in c] for c in o['cols']], dtype=float).T.reshape(len(idx), len(o['cols']))
    return pd.DataFrame(mat, index=idx, columns=list(o['names']))


def m_of(o):
    """model operand: ('scalar', v) | ('series', {t: v}) | ('frame', {col: {t: v}}, single?)"""
    f = lambda v: NAN if v is None else float(v)
    if o['k'] == 'scalar':
        return ('scalar', NAN if o['v'] is None else o['v'])
    if o['k'] == 'series':
        return ('series', dict(zip(o['ts'], map(f, o['v']))), list(o['ts']))
    return ('frame', {n: dict(zip(o['ts'], map(f, c))) for n, c in zip(o['names'], o['cols'])}, list(o['ts']), list(o['names']))


NEUTRAL = {'add': 0.0, 'sub': 0.0, 'mul': 1.0, 'div': 1.0}


def fop(op, x, y):
    with np.errstate(all='ignore'):
        x = np.float64(x); y = np.float64(y)
        if op == 'add':
            return float(x + y)
        if op == 'sub':
            return float(x - y)
        if op == 'mul':
            return float(x * y)
        if op == 'div':
            return NAN if y == 0 else float(x / y)
        if op == 'pow':
            return float(x ** y)
        if op == 'gt':
            return bool(x > y)
        if op == 'ge':
            return bool(x >= y)
        if op == 'lt':
            return bool(x < y)
        if op == 'le':
            return bool(x <= y)
        if op == 'min':
            return float(np.minimum(x, y))
        if op == 'max':
            return float(np.maximum(x, y))
    raise HarnessError(op)


_FILL = [None]


def m_binary(op, a, b, join, columns):
    """returns ('scalar', v) | ('series', {t:v}, index) | ('frame', {col:{t:v}}, index, cols)"""
    pand = [x for x in (a, b) if x[0] != 'scalar']
    if not pand:
        if op == 'div' and b[1] == 0:
            return ('scalar', NAN)
        return ('scalar', fop(op, a[1], b[1]))
    idxs = [x[2] for x in pand]
    if join == 'ij':
        s = set(idxs[0])
        for i in idxs[1:]:
            s &= set(i)
    else:
        s = set()
        for i in idxs:
            s |= set(i)
    index = sorted(s)
    multi = [x for x in pand if x[0] == 'frame' and len(x[3]) > 1]

    def val(x, t, col):
        if x[0] == 'scalar':
            return x[1]
        if x[0] == 'series':
            v_ = x[1].get(t, NAN)
            return 0.0 if (_FILL[0] == 0 and isn(v_)) else v_      # a numeric fill method: what the operand lacks at a joint timestamp is that constant
        if len(x[3]) == 1:
            return x[1][x[3][0]].get(t, NAN)
        if col in x[1]:
            return x[1][col].get(t, NAN)
        return NEUTRAL.get(op, NAN)
    if not multi:
        return ('series', {t: fop(op, val(a, t, None), val(b, t, None)) for t in index}, index)
    tuples = {tuple(x[3]) for x in multi}
    if len(tuples) == 1:
        cols = list(multi[0][3])
    elif columns == 'ij':
        c = set(multi[0][3])
        for x in multi[1:]:
            c &= set(x[3])
        cols = sorted(c)
    else:
        c = set()
        for x in multi:
            c |= set(x[3])
        cols = sorted(c)
    return ('frame', {col: {t: fop(op, val(a, t, col), val(b, t, col)) for t in index} for col in cols}, index, cols)


def compare(ctx, got, exp, what, mon='pointwise_model'):
    import pandas as pd
    if exp[0] == 'scalar':
        ok = (isinstance(got, (int, float, np.floating, np.integer, bool, np.bool_)) and ((isn(float(got)) and isn(exp[1])) or got == exp[1]))
        if not ok and isn(exp[1]) and isinstance(got, (pd.Series, np.ndarray)):
            ok = bool(np.all(np.isnan(np.asarray(got, dtype=float))))
        ctx.check(mon, ok, lambda: '%s = %r, expected scalar %r' % (what, got, exp[1]))
        return ok
    index = [T0 + datetime.timedelta(days=i) for i in exp[2]]
    if not isinstance(got, (pd.Series, pd.DataFrame)):
        # a scalar zero denominator collapses to NaN: accepted
        ctx.check(mon, False, lambda: '%s returned %r, expected a timeseries on %s' % (what, got, exp[2]))
        return False
    gi = [t.to_pydatetime() if hasattr(t, 'to_pydatetime') else (datetime.datetime(t.year, t.month, t.day) if type(t) is datetime.date else t) for t in got.index]
    if not ctx.check('result_index', gi == index, lambda: '%s: result index %s, aligned index %s' % (what, [t.strftime('%d') if hasattr(t, 'strftime') else t for t in gi], exp[2])):
        return False
    if exp[0] == 'series':
        if isinstance(got, pd.DataFrame):
            if got.shape[1] != 1:
                ctx.check(mon, False, lambda: '%s: expected a series-like result, got columns %s' % (what, list(got.columns)))
                return False
            g = got.iloc[:, 0].tolist()
        else:
            g = got.tolist()
        e = [exp[1][t] for t in exp[2]]
        ok = len(g) == len(e) and all(_ceq(a, b) for a, b in zip(g, e))
        ctx.check(mon, ok, lambda: '%s: values %s, pointwise model %s' % (what, g, e))
        return ok
    if not isinstance(got, pd.DataFrame) or sorted(map(str, got.columns)) != sorted(exp[3]):
        ctx.check(mon, False, lambda: '%s: columns %s, expected %s' % (what, list(getattr(got, 'columns', ['<series>'])), exp[3]))
        return False
    for c in exp[3]:
        g = got[c].tolist()
        e = [exp[1][c][t] for t in exp[2]]
        if not (len(g) == len(e) and all(_ceq(a, b) for a, b in zip(g, e))):
            ctx.check(mon, False, lambda: '%s: column %s values %s, pointwise model %s' % (what, c, g, e))
            return False
    ctx.monitors[mon] += 1
    return True


def _ceq(a, b):
    if isinstance(b, bool):
        return bool(a) == b
    return (isn(float(a)) and isn(b)) or float(a) == b


def snap_ops(objs):
    import pandas as pd
    return [(list(o.index), o.values.tolist()) if isinstance(o, (pd.Series, pd.DataFrame)) else o for o in objs]


def run_case(case, ctx, objs=None):
    import pandas as pd
    import pyg_base as pb
    ops = case['operands']
    objs = [live(o) for o in ops] if objs is None else objs
    if case.get('reverse') is not None and isinstance(objs[case['reverse'] % len(objs)], (pd.Series, pd.DataFrame)):
        j_ = case['reverse'] % len(objs)
        objs[j_] = objs[j_].iloc[::-1]          # one operand runs newest-first: the same observations under the same labels
    ms = [m_of(o) for o in ops]
    before = snap_ops(objs)
    join, columns, op = case['join'], case['columns'], case['op']
    kw = dict(join=join, columns=columns)
    _FILL[0] = None
    if case.get('method') == 0:
        kw['method'] = 0
        _FILL[0] = 0
    FN = {'add': pb.add_, 'sub': pb.sub_, 'mul': pb.mul_, 'div': pb.div_, 'pow': pb.pow_, 'min': pb.min_, 'max': pb.max_}
    from pyg_base import _pandas as P
    FN.update({'gt': P.gt_, 'ge': P.ge_, 'lt': P.lt_, 'le': P.le_, 'df_sum': P.df_sum, 'df_mean': P.df_mean, 'df_count': P.df_count})
    if op in ('df_sum', 'df_mean', 'df_count'):
        arg_list = list(objs)
        st, got = ctx.call(FN[op], arg_list, join=join, columns=columns) if case.get('as_list', True) else ctx.call(FN[op], objs[0], list(objs[1:]), join=join, columns=columns)
        ctx.check('inputs_unmodified', len(arg_list) == len(objs) and all(a is b for a, b in zip(arg_list, objs)), lambda: '%s edited the list of operands it was given' % op)
        scal = [m for m in ms if m[0] == 'scalar']
        ms = [m for m in ms if m[0] != 'scalar']
        pand = [m for m in ms]
        s = set()
        for m in pand:
            s = (s | set(m[2])) if join == 'oj' else (s & set(m[2]) if s else set(m[2]))
        if join == 'ij':
            s = set(pand[0][2])
            for m in pand[1:]:
                s &= set(m[2])
        index = sorted(s)
        if ms[0][0] == 'series':
            colsets = [None]
        else:
            allc = [set(m[3]) for m in ms]
            colsets = sorted(set.union(*allc) if columns == 'oj' else set.intersection(*allc))

        def agg(vals):
            vals = list(vals) + [float(m[1]) for m in scal]      # a scalar operand has data at every timestamp
            good = [v for v in vals if not isn(v)]
            if op == 'df_count':
                return float(len(good))
            if not good:
                return NAN
            tot = 0.0
            for v in good:
                tot = tot + v
            return tot if op == 'df_sum' else tot / len(good)
        if ms[0][0] == 'series':
            exp = ('series', {t: agg([m[1].get(t, NAN) for m in ms]) for t in index}, index)
        else:
            exp = ('frame', {c: {t: agg([m[1][c].get(t, NAN) if c in m[1] else NAN for m in ms]) for t in index} for c in colsets}, index, list(colsets))
        if st != 'ok':
            ctx.ev('aggregates_skip_nan'); ctx.fail('aggregates_skip_nan', '%s raised %s' % (op, core.exc_str(got)))
        else:
            compare(ctx, got, exp, '%s(%r, join=%s, columns=%s)' % (op, ops, join, columns), mon='aggregates_skip_nan')
        if case.get('phase2') is not None and st == 'ok':
            # the same operand objects again after the index of one of them was moved in place (same length): nothing remembered may be reused
            j = case['phase2'] % len(objs)
            if isinstance(objs[j], (pd.Series, pd.DataFrame)) and len(objs[j]):
                objs[j].index = objs[j].index + pd.Timedelta(days=3)
                ops2 = [dict(o) for o in ops]
                ops2[j] = dict(ops[j], ts=[t + 3 for t in ops[j]['ts']])
                case2 = dict(case, operands=ops2)
                case2.pop('phase2')
                run_case(case2, ctx, objs=objs)
                objs[j].index = objs[j].index - pd.Timedelta(days=3)
                ctx.cls('aggregate_repeated_after_index_moved_in_place')
                return
    else:
        two = len(objs) == 2 or op in ('pow', 'gt', 'ge', 'lt', 'le')
        if two:
            a, b = objs[0], objs[1]
            st, got = ctx.call(FN[op], a, b, **kw)
            if case.get('reverse') is not None and st == 'ok' and isinstance(got, (pd.Series, pd.DataFrame)):
                got = got.sort_index()           # the order of the result's rows is not claimed then, only label -> value
            exp = m_binary(op, ms[0], ms[1], join, columns)
            what = '%s_(%r, %r, join=%s, columns=%s)' % (op, ops[0], ops[1], join, columns)
            if st != 'ok':
                ctx.ev('pointwise_model'); ctx.fail('pointwise_model', '%s raised %s' % (what, core.exc_str(got)))
            else:
                if op == 'div' and ms[1][0] == 'scalar' and ms[1][1] == 0 and exp[0] != 'scalar':
                    ok = (isinstance(got, float) and isn(got)) or (hasattr(got, 'values') and bool(np.all(np.isnan(np.asarray(got.values, dtype=float)))))
                    ctx.check('pointwise_model', ok, lambda: '%s with a zero scalar denominator = %r (expected NaN everywhere)' % (what, got))
                else:
                    compare(ctx, got, exp, what)
                if op == 'div' and hasattr(got, 'values') and not case.get('inf_cells'):
                    ctx.check('div_no_inf', not bool(np.any(np.isinf(np.asarray(got.values, dtype=float)))), lambda: '%s produced +-inf: %r' % (what, got))
                if op in ('add', 'mul'):
                    st2, got2 = ctx.call(FN[op], b, a, **kw)
                    if case.get('reverse') is not None and st2 == 'ok' and isinstance(got2, (pd.Series, pd.DataFrame)):
                        got2 = got2.sort_index()
                    exp2 = m_binary(op, ms[1], ms[0], join, columns)
                    if st2 == 'ok':
                        compare(ctx, got2, exp, 'commuted ' + what, mon='commutative')
                    else:
                        ctx.ev('commutative'); ctx.fail('commutative', 'commuted %s raised %s' % (what, core.exc_str(got2)))
        else:
            # list reduction, left to right
            if op in ('add', 'mul', 'min', 'max'):
                arg_list = list(objs)
                if case.get('as_list', True) == 'head_list' and len(objs) >= 3:
                    # the leading operands as one list, the last one on its own: f([a, b], c); the caller's list stays what it was
                    arg_list = list(objs[:-1])
                    st, got = ctx.call(FN[op], arg_list, objs[-1], **kw)
                    ctx.check('inputs_unmodified', len(arg_list) == len(objs) - 1 and all(a is b for a, b in zip(arg_list, objs)), lambda: '%s_(list, other) edited the list of operands it was given: %d -> %d members' % (op, len(objs) - 1, len(arg_list)))
                    arg_list = list(objs)
                else:
                    st, got = ctx.call(FN[op], arg_list, **kw) if case.get('as_list', True) else ctx.call(FN[op], objs[0], list(objs[1:]), **kw)
                ctx.check('inputs_unmodified', len(arg_list) == len(objs) and all(a is b for a, b in zip(arg_list, objs)), lambda: '%s_ edited the list of operands it was given' % op)
                acc = ms[0]
                for m in ms[1:]:
                    acc = _as_operand(m_binary(op, acc, m, join, columns))
                exp = _as_result(acc)
            elif op == 'sub':
                st, got = ctx.call(FN[op], objs[0], list(objs[1:]), **kw)
                acc = ms[1]
                for m in ms[2:]:
                    acc = _as_operand(m_binary('add', acc, m, join, columns))
                exp = m_binary('sub', ms[0], acc, join, columns)
            else:
                st, got = ctx.call(FN[op], objs[0], list(objs[1:]), **kw)
                acc = ms[1]
                for m in ms[2:]:
                    acc = _as_operand(m_binary('mul', acc, m, join, columns))
                exp = m_binary('div', ms[0], acc, join, columns)
            what = '%s_ over %d operands %r (join=%s, columns=%s)' % (op, len(ops), ops, join, columns)
            if st != 'ok':
                ctx.ev('list_reduce_left_to_right'); ctx.fail('list_reduce_left_to_right', '%s raised %s' % (what, core.exc_str(got)))
            elif op == 'div' and acc[0] == 'scalar' and acc[1] == 0:
                ok = (isinstance(got, float) and isn(got)) or (hasattr(got, 'values') and bool(np.all(np.isnan(np.asarray(got.values, dtype=float)))))
                ctx.check('list_reduce_left_to_right', ok, lambda: '%s with a zero scalar denominator = %r (expected NaN everywhere)' % (what, got))
            elif not (op in ('min', 'max') and _mixed_for_minmax(ms)):
                compare(ctx, got, exp, what, mon='list_reduce_left_to_right')
    ctx.check('inputs_unmodified', all(_snap_eq(a, b) for a, b in zip(before, snap_ops(objs))), lambda: 'an operand was modified')
    # classes
    pand = [m for m in ms if m[0] != 'scalar']
    sets = [set(m[2]) for m in pand]
    part = len(sets) >= 2 and any(a != b and a & b for a in sets for b in sets)
    zero_or_nan = any((v is None or v == 0) for o in ops if o['k'] != 'scalar' for v in (o['v'] if o['k'] == 'series' else [x for c in o['cols'] for x in c]))
    diffcols = len({tuple(m[3]) for m in pand if m[0] == 'frame' and len(m[3]) > 1}) > 1
    if (part and zero_or_nan) or diffcols:
        ctx.mark_nontrivial(case)
    ctx.cls('op:' + op)
    ctx.cls('join:%s/%s' % (join, columns))
    if diffcols:
        ctx.cls('differing_column_sets')


def _mixed_for_minmax(ms):
    return False


def _snap_eq(a, b):
    if isinstance(a, tuple):
        return a[0] == b[0] and core.same(a[1], b[1])
    return a == b or (isn(a) and isn(b))


def _as_operand(r):
    if r[0] == 'scalar':
        return r
    if r[0] == 'series':
        return ('series', r[1], r[2])
    return ('frame', r[1], r[2], r[3])


def _as_result(r):
    return r


# ------------------------------------------------------------------ generator
VALS = [-2, -1, 0, 0, 1, 2, 3, None, None, 0.5]


_GRID = [12]
_DATES = [False]
_FREQ = [None]     # set per case: the operands' indices carry a frequency (mostly the same one, out of phase)


def gen_operand(rng, kind, names_pool):
    if kind == 'scalar':
        return {'k': 'scalar', 'v': rng.choice([0, 1, 2, -1, 2.5, 0])}
    mode = rng.random()
    if mode < 0.07:
        ts = []
    elif mode < 0.4:
        a = rng.randrange(_GRID[0]); b = rng.randrange(a, _GRID[0])
        ts = list(range(a, b + 1))
    else:
        ts = sorted(rng.sample(range(_GRID[0]), rng.randint(1, _GRID[0])))
    freq = None
    if _FREQ[0] and rng.random() < 0.7:
        freq = _FREQ[0] if rng.random() < 0.8 else rng.choice([1, 2, 3])
        a = rng.randrange(freq + 1)
        ts = list(range(a, _GRID[0], freq))[:rng.randint(1, _GRID[0])]
    if kind == 'series':
        res = {'k': 'series', 'ts': ts, 'v': [rng.choice(VALS) for _ in ts]}
    else:
        k = 1 if kind == 'frame1' else rng.choice([2, 3])
        names = names_pool(k)
        res = {'k': 'frame', 'ts': ts, 'names': names, 'cols': [[rng.choice(VALS) for _ in ts] for _ in range(k)]}
    if freq:
        res['freq'] = freq
    elif _DATES[0]:
        res['dates'] = True
    return res


def gen_case(rng):
    _FREQ[0] = rng.choice([1, 2, 2, 3]) if rng.random() < 0.12 else None
    _DATES[0] = (not _FREQ[0]) and rng.random() < 0.05
    _GRID[0] = 12 if rng.random() > 0.03 else 150        # a few long series in every tier: any size-dependent path (fast joins, batched reductions) is reached
    op = rng.choice(['add', 'add', 'sub', 'mul', 'mul', 'div', 'div', 'pow', 'gt', 'ge', 'lt', 'le', 'min', 'max', 'df_sum', 'df_mean', 'df_count'])
    join = rng.choice(['ij', 'oj'])
    columns = rng.choice(['ij', 'oj'])
    base = rng.sample(['p', 'q', 'r', 's'], 3)
    same_cols = rng.random() < 0.4

    def names_pool(k):
        if k == 1:
            return [rng.choice(['p', 'z'])]
        if same_cols:
            return base[:k] if k <= 3 else base
        ns = [base[0]] + rng.sample(base[1:] + ['t'], k - 1)   # always share base[0]
        rng.shuffle(ns)
        return ns
    if op in ('df_sum', 'df_mean', 'df_count'):
        n = rng.randint(2, 4)
        kind = rng.choice(['series', 'frameN'])
        operands = [gen_operand(rng, kind, names_pool) for _ in range(n)]
        if rng.random() < 0.35:
            # all operands already on one index (nothing to align): the aggregate must still not touch them
            ts0 = operands[0]['ts']
            for o in operands[1:]:
                o['ts'] = list(ts0)
                if o['k'] == 'series':
                    o['v'] = [rng.choice(VALS) for _ in ts0]
                else:
                    o['cols'] = [[rng.choice(VALS) for _ in ts0] for _ in o['cols']]
        if kind == 'frameN' and same_cols:
            k = len(operands[0]['names'])
            for o in operands:
                o['names'] = base[:k]
                o['cols'] = (o['cols'] + o['cols'])[:k]
        if kind == 'series' and rng.random() < 0.3:
            operands.insert(rng.randrange(1, len(operands) + 1), {'k': 'scalar', 'v': rng.choice([2, 2.5, 0, -1])})
        case = {'op': op, 'operands': operands, 'join': rng.choice(['oj', 'oj', 'ij']), 'columns': rng.choice(['oj', 'oj', 'ij']), 'as_list': rng.random() < 0.6 or any(o['k'] == 'scalar' for o in operands)}
        if rng.random() < 0.3:
            case['phase2'] = rng.randrange(len(operands))
        return case
    n = 2 if op in ('pow', 'gt', 'ge', 'lt', 'le') or rng.random() < 0.7 else rng.randint(3, 4)
    kinds = [rng.choice(['series', 'series', 'frame1', 'frameN', 'frameN', 'scalar']) for _ in range(n)]
    if all(k == 'scalar' for k in kinds):
        kinds[0] = 'series'
    if op in ('min', 'max'):
        if all(k == 'scalar' for k in kinds[1:]) and kinds[0] == 'scalar':
            kinds[0] = 'series'
        seen1 = False
        for i_, k_ in enumerate(kinds):     # two one-column frames with different names are aligned by label by numpy/pandas (outside the statement): keep at most one
            if k_ == 'frame1':
                if seen1:
                    kinds[i_] = 'series'
                seen1 = True
        if any(k == 'frameN' for k in kinds):
            same_cols = True         # a one-column frame beside wide ones is broadcast like a series
    if op in ('add', 'mul', 'sub', 'div') and rng.random() < 0.12:
        # long lists mixing several scalars with frames of different column sets: the reduction order is observable under columns='oj'
        kinds = ['frameN', 'scalar', 'frameN', 'scalar'] + [rng.choice(['scalar', 'frameN', 'series'])] * rng.randint(0, 1)
        rng.shuffle(kinds)
        same_cols = False
        columns = 'oj' if rng.random() < 0.8 else columns
    operands = [gen_operand(rng, k, names_pool) for k in kinds]
    if op in ('min', 'max'):
        for o in operands:
            if o['k'] == 'scalar' and rng.random() < 0.3:
                o['v'] = None          # a NaN scalar (e.g. what a division by zero returned): the pointwise min/max with NaN is NaN
    if op == 'pow':
        for o in operands:
            if o['k'] == 'series':
                o['v'] = [v if v is None else abs(v) for v in o['v']]
            elif o['k'] == 'frame':
                o['cols'] = [[v if v is None else abs(v) for v in c] for c in o['cols']]
            else:
                o['v'] = abs(o['v'])
    case = {'op': op, 'operands': operands, 'join': join, 'columns': columns, 'as_list': rng.random() < 0.6}
    if op == 'div' and len(operands) == 2 and operands[0]['k'] != 'scalar' and rng.random() < 0.3:
        # infinite observations in the numerator: inf / 2 is inf (only a ZERO denominator yields NaN)
        o = operands[0]
        if o['k'] == 'series':
            o['v'] = [(rng.choice(['inf', '-inf']) if (v is not None and rng.random() < 0.3) else v) for v in o['v']]
        else:
            o['cols'] = [[(rng.choice(['inf', '-inf']) if (v is not None and rng.random() < 0.3) else v) for v in c] for c in o['cols']]
        case['inf_cells'] = True
    if len(operands) >= 3 and op in ('add', 'mul', 'min', 'max') and rng.random() < 0.3:
        case['as_list'] = 'head_list'
    if len(operands) == 2 and op in ('add', 'sub', 'mul', 'div', 'min', 'max', 'gt', 'le') and rng.random() < 0.1:
        case['reverse'] = rng.randrange(2)
        return case
    if op in ('add', 'sub', 'mul', 'div') and len(operands) == 2 and all(o['k'] in ('series', 'scalar') for o in operands) and rng.random() < 0.4:
        case['method'] = 0          # the numeric fill method (4th parameter): holes of an operand at joint timestamps count as 0
    return case


def plan(tier, seed, n):
    per = 400 if tier == 'quick' else 20000
    return [{'n': per} for _ in range(n)]


def run(spec, ctx):
    for i in range(spec['n']):
        rng = random.Random('C08/%d/%d/%d' % (spec['seed'], spec['shard'], i))
        case = gen_case(rng)
        ctx.case(case)
        ctx.run_case(case, run_case)
        if ctx.full():
            break


def replay(case, ctx):
    ctx.case(case)
    ctx.run_case(case, run_case, shrink=False)
