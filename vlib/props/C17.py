"""C17 - bitemporal store: reading as of T sees exactly what had been published by T.

Monitor shape: history + executable model.  A publication history (stamp, partial series) is merged one by one with
bi_merge(store, Bi(series, stamp)); a ledger model records per observation date every (stamp, merge#, value); interleaved as-of
reads at T before / on / between / after the stamps are compared with the ledger (no look-ahead, last-merged-wins on a shared stamp,
NaN never overrides, first-published with what=0, idempotent re-merge)."""
import random, datetime, math
import numpy as np
from .. import core, codec
from ..core import HarnessError

ID = 'C17'
TITLE = 'bitemporal store: as-of reads see exactly what was published'
LEVEL = 'exploration'
TECHNIQUE = 'runtime monitoring: history + executable ledger model; as-of reads at T before/on/between/after every stamp after every merge; idempotence by re-merge'
LEVEL_TEXT = 'Held on the publication histories explored (2-8 versions, up to 30 dates, shared stamps, NaN, reverts, >16 stored rows). A check says held on K observed executions, never verified.'
LEVEL_NOTE = 'Trusted: the ledger model; single-column series; stamps non-decreasing as the statement requires.'
RULE = ('random publication histories: 2-8 versions over 3-30 observation dates (deliberately crossing 16 stored rows), non-decreasing stamps with repeats, values in {0..3, NaN} '
        'so repeats and reverts are common, partial versions, dates first appearing late; after every merge reads at T before/on/between/after each stamp for what in {-1, 0}; '
        'non-trivial = (>=2 versions share a stamp and >16 stored rows) or a revert to an earlier value; distinct = canonical hash of the history')
RULE_ALSO = "; added by the coverage audit and round 8: read times as ISO text / yyyymmdd / date / seconds since 1970, observation dates after the stamps, stamped and plain versions mixed in one merge, stamps taken from the clock ('now') bracketed by clock readings; the store's index name and column labels are part of read_does_not_change_store; rows stamped relative to their own observation date (Bi(ts, n), Bi(ts, 'nd'), Bi(ts, ['kb', 'nh']), Bi(ts, 'shift')) against an independent stamp model, then merged and read like any other history"
ASSUMPTIONS = ['versions are merged in non-decreasing stamp order (as the statement requires)', 'single-column series only (multi-column frames are outside the statement)',
               'for versions whose rows are stamped relative to their own date the premise (non-decreasing stamps) is read per observation date', 'idempotence is claimed for re-merging the most recent version or a version whose stamp is unique in the history']
T0 = datetime.datetime(2020, 1, 1)
DAY = datetime.timedelta(1)


def required(tier):
    return {'asof_read_last': 1500, 'asof_read_first': 1500, 'no_lookahead_rows': 1500, 'remerge_idempotent': 100, 'bump_stamps_model': 10}


def isn(v):
    return v != v


def ledger_read(ledger, T, what):
    """ledger: {date: [(stamp, value)...] in merge order}. returns {date: value}"""
    out = {}
    for d, ents in ledger.items():
        vis = [(s, v) for s, v in ents if T is None or s <= T]
        if not vis:
            continue
        pubs = []   # consecutive same-stamp entries form one publication
        for s, v in vis:
            if pubs and pubs[-1][0] == s:
                pubs[-1][1].append(v)
            else:
                pubs.append((s, [v]))
        vals = []
        for s, vs in pubs:
            nn = [v for v in vs if not isn(v)]
            vals.append(nn[-1] if nn else float('nan'))
        if what == 0:
            out[d] = vals[0]
        else:
            eff = float('nan')
            for v in vals:
                if not isn(v):
                    eff = v
            out[d] = eff
    return out


def run_case(case, ctx):
    import pandas as pd
    from pyg_base import Bi, bi_merge, bi_read
    dates = [T0 + DAY * i for i in range(case['ndates'])]
    if case.get('forecast') and not case.get('future'):
        dates = [T0 + DAY * (200 + i) for i in range(case['ndates'])]       # observation dates that lie AFTER every publication stamp and read time (forecasts, schedules): rows like any other
        ctx.cls('observation_dates_after_the_stamps')
    if case.get('now_stamps'):
        return run_now(case, ctx, dates)
    if case.get('bump_stamps'):
        return run_bump(case, ctx, dates)
    store = None
    ledger = {}
    stamps = []
    versions = []
    rows_max = 0
    # publication stamps may lie in the future of the wall clock (forward-dated publications): they are stamps like any other
    base = datetime.datetime(2150, 1, 1) if case.get('future') else T0 + DAY * 100
    working = {}
    batches, vi0 = [], 0
    for size in (case.get('batch') or [1] * len(case['versions'])):
        batches.append(list(range(vi0, vi0 + size))); vi0 += size
    for grp in batches:
        vi = grp[-1]
        bs = []
        for gi in grp:
            ver = case['versions'][gi]
            stamp = base + datetime.timedelta(hours=ver['stamp'], microseconds=ver.get('us', 0))      # stamps may differ by less than a millisecond
            if case.get('tz'):
                stamp = pd.Timestamp(stamp, tz='UTC')        # timezone-aware publication stamps: instants, whatever zone a reader quotes them in
            elif case.get('ns_stamps'):
                stamp = pd.Timestamp(stamp) + pd.Timedelta(ver.get('ns', 0), 'ns')      # stamps from a nanosecond clock: publications inside one microsecond are still one after the other
            idx = [dates[i] for i in ver['idx']]
            vals = [float('nan') if v is None else float(v) for v in ver['vals']]
            s = pd.Series(vals, index=pd.DatetimeIndex(idx), dtype=float, name=case.get('series_name'))       # a series usually carries a name
            if ver.get('as_frame'):
                # the publisher hands over its working table (a one-column frame); when it covers the same dates as the last one it is that very object, amended in place
                if working.get('idx') == idx and working.get('obj') is not None:
                    tbl = working['obj']
                    tbl.iloc[:, 0] = vals
                else:
                    tbl = pd.DataFrame({'px': vals}, index=pd.DatetimeIndex(idx), dtype=float)
                working['obj'], working['idx'] = tbl, list(idx)
                cols_before = list(tbl.columns)
                bi_ = Bi(tbl, stamp)
                ctx.check('merge_operands_unchanged', list(tbl.columns) == cols_before, lambda: 'Bi(table, stamp) wrote into the table it was given: columns %s -> %s' % (cols_before, list(tbl.columns)))
                bs.append(bi_)
            else:
                bs.append(Bi(s, stamp.to_datetime64() if (case.get('ns_stamps') and gi % 2 == 0) else stamp))
            versions.append((stamp, s))
            stamps.append(stamp)
            for d, v in zip(idx, vals):
                ledger.setdefault(d, []).append((stamp, v))
        snap_b = [(list(b.index), _vl(b)) for b in bs]
        snap_s = None if store is None else (list(store.index), store.values.tolist())
        if case.get('start_plain') and store is None and len(grp) == 2 and not any(case['versions'][g_].get('as_frame') for g_ in grp):
            # a history started from a not-yet-bitemporal series: bi_merge(plain_old, plain_new, asof=t2, existing_data=t1)
            (t1_, s1_), (t2_, s2_) = versions[-2], versions[-1]
            st, merged = ctx.call(bi_merge, s1_, s2_, asof=t2_, existing_data=t1_)
            ctx.cls('history_started_with_existing_data')
        else:
            if len(bs) > 1 and case.get('mixed_spelling') and len({versions[-k_ - 1][0] for k_ in range(len(bs))}) == 1 and not any(case['versions'][g_].get('as_frame') for g_ in grp):
                # versions sharing one stamp handed over in one list, some already stamped (Bi), some plain with asof = that stamp: the list order is the merge order
                items = [b_ if (j_ + case['mixed_spelling']) % 2 else versions[-len(bs) + j_][1] for j_, b_ in enumerate(bs)]
                st, merged = ctx.call(bi_merge, store, items, asof=versions[-1][0])
                ctx.cls('one_merge_mixing_stamped_and_plain_versions')
            else:
                st, merged = ctx.call(bi_merge, store, bs[0] if len(bs) == 1 else list(bs))     # several versions handed over together, in order
        if st == 'ok':
            okb = [(list(b.index), _vl(b)) for b in bs] == snap_b and (store is None or (list(store.index), _vl(store)) == (snap_s[0], _nl(snap_s[1])))
            ctx.check('merge_operands_unchanged', okb, lambda: 'bi_merge modified the store or the new version it was given')
        if st != 'ok':
            ctx.ev('asof_read_last'); ctx.fail('asof_read_last', 'bi_merge raised at version %d: %s' % (vi, core.exc_str(merged)))
            return
        store = merged
        rows_max = max(rows_max, len(store))
        if len(bs) > 1:
            ctx.cls('several_versions_in_one_merge')
        if not check_reads(ctx, store, ledger, stamps, 'after merging version%s %s' % ('s' if len(grp) > 1 else '', grp)):
            return
    if case.get('future'):
        ctx.cls('future_dated_stamps')
    # idempotence
    last_stamp, last_s = versions[-1]
    cands = [(-1, last_stamp, last_s)] + [(i, st_, s_) for i, (st_, s_) in enumerate(versions[:-1]) if [x for x in stamps].count(st_) == 1]
    rng = random.Random(case['ndates'] * 7 + len(versions))
    for i, st_, s_ in cands[:3]:
        stx, again = ctx.call(bi_merge, store, Bi(s_, st_))
        ctx.monitors['remerge_idempotent'] += 1
        if stx != 'ok':
            ctx.fail('remerge_idempotent', 're-merging version %d raised %s' % (i, core.exc_str(again)))
            return
        if not check_reads(ctx, again, ledger, stamps, 'after re-merging version %d (already in the store)' % i, mon_prefix='remerge_idempotent'):
            return
    # several old versions re-merged one after the other into the growing store, in an arbitrary order
    acc = store
    order = [c for c in cands if c[0] != -1]
    rng.shuffle(order)
    for i, st_, s_ in (order + cands[:1])[:6]:
        stx, acc = ctx.call(bi_merge, acc, Bi(s_, st_))
        ctx.monitors['remerge_idempotent'] += 1
        if stx != 'ok':
            ctx.fail('remerge_idempotent', 're-merging version %d into the store of earlier re-merges raised %s' % (i, core.exc_str(acc)))
            return
        if not check_reads(ctx, acc, ledger, stamps, 'after re-merging old versions one after the other, last one %d' % i, mon_prefix='remerge_idempotent'):
            return
    shared = len(set(stamps)) < len(stamps)
    revert = False
    for d, ents in ledger.items():
        seq = [v for _, v in ents if not isn(v)]
        comp = [v for i, v in enumerate(seq) if i == 0 or v != seq[i - 1]]
        if len(comp) != len(set(comp)):
            revert = True
    if (shared and rows_max > 16) or revert:
        ctx.mark_nontrivial(case)
    if shared and rows_max > 16:
        ctx.cls('shared_stamp_and_>16_rows')
    if revert:
        ctx.cls('revert')
    ctx.maxstat('max_store_rows', rows_max)


def run_now(case, ctx, dates):
    """publications stamped by the clock (bi_merge's default asof = 'now'): each stamp lies between the clock readings taken around its call, and a read
    at a clock reading taken between two publications sees exactly the earlier ones"""
    import pandas as pd, time
    from pyg_base import bi_merge, bi_read, Bi
    store, ledger, stamps, marks = None, {}, [], []
    for vi, ver in enumerate(case['versions'][:4]):
        idx = [dates[i] for i in ver['idx']]
        vals = [float('nan') if v is None else float(v) for v in ver['vals']]
        s = pd.Series(vals, index=pd.DatetimeIndex(idx), dtype=float)
        time.sleep(0.002)
        t_before = datetime.datetime.now()
        how = (vi + case['now_stamps']) % 3
        st, merged = ctx.call(bi_merge, store, s) if how == 0 else ctx.call(bi_merge, store, s, 'now') if how == 1 else ctx.call(bi_merge, store, Bi(s, 'now'))
        t_after = datetime.datetime.now()
        time.sleep(0.002)
        ctx.monitors['no_lookahead_rows'] += 1
        if st != 'ok':
            ctx.fail('no_lookahead_rows', "bi_merge(store, version %d) stamped 'now' raised %s" % (vi, core.exc_str(merged)))
            return
        store = merged if vi else (merged if 'updated' in getattr(merged, 'columns', []) else Bi(merged, t_after))
        new_stamps = [u.to_pydatetime() for u in pd.to_datetime(store['updated']) if u.to_pydatetime() > (marks[-1] if marks else datetime.datetime(1900, 1, 1))]
        if not all(t_before <= u <= t_after for u in new_stamps):
            ctx.fail('no_lookahead_rows', "version %d was published 'now' between %s and %s but the rows added carry the stamps %s (earlier ones: %s)" % (vi, t_before, t_after, sorted(set(new_stamps))[:3], stamps[-2:]))
            return
        stamp = max(new_stamps) if new_stamps else t_before       # (a version that repeats what the store holds adds no row: any stamp inside the interval reads the same)
        stamps.append(stamp); marks.append(t_after)
        for d, v in zip(idx, vals):
            ledger.setdefault(d, []).append((stamp, v))
        # reads at the clock readings taken between the publications so far
        for k_, T in enumerate(marks):
            for what in (-1, 0):
                st2, res = ctx.call(bi_read, store, T, what)
                exp = ledger_read(ledger, T, what)
                mon = 'asof_read_last' if what == -1 else 'asof_read_first'
                ctx.monitors[mon] += 1
                got = None if st2 != 'ok' else {t.to_pydatetime(): v for t, v in zip(res.index, (res.values.reshape(-1).tolist() if hasattr(res, 'values') else []))}
                if st2 != 'ok' or set(got) != set(exp) or any(not ((isn(got[d]) and isn(exp[d])) or got[d] == exp[d]) for d in exp):
                    ctx.fail(mon, "stamps taken from the clock ('now'): bi_read(asof = the clock reading after publication %d, what=%d) = %s, the ledger of what had been published by then says %s" % (k_, what, got if st2 == 'ok' else res, exp))
                    return
    ctx.cls('stamps_taken_from_the_clock')
    ctx.mark_nontrivial(case)


def _bday_after(d, k):
    """the k-th weekday after d (a weekend day first rolls to Monday), by walking one day at a time"""
    while d.weekday() > 4:
        d = d + DAY
    while k:
        d = d + DAY
        if d.weekday() <= 4:
            k -= 1
    return d


def run_bump(case, ctx, dates):
    """Bi(ts, bump): every row is stamped relative to its own observation date - n days on, the k-th business day after it at h o'clock, or
    (asof='shift') the next observation date.  The premise 'merged in non-decreasing order of stamp' is read per observation date: the bumps
    do not decrease from one version to the next."""
    import pandas as pd
    from pyg_base import bi_merge, bi_read, Bi
    fam = case['bump_stamps']
    store, ledger, stamps = None, {}, []
    vers = case['versions'][:1] if fam == 'shift' else case['versions'][:5]
    bump = [0, 0, 0]
    rng = random.Random(case['ndates'] * 13 + len(vers))
    for vi, ver in enumerate(vers):
        idx = [dates[i] for i in ver['idx']]
        vals = [float('nan') if v is None else float(v) for v in ver['vals']]
        s = pd.Series(vals, index=pd.DatetimeIndex(idx), dtype=float, name=case.get('series_name'))
        if vi:
            bump = [bump[0] + rng.choice([0, 0, 1, 2, 5]), bump[1] + rng.choice([0, 0, 1, 2]), bump[2] + rng.choice([0, 0, 3, 6])]
        t_before = datetime.datetime.now()
        if fam == 'int':
            arg = bump[0]; exp_st = [d + DAY * bump[0] for d in idx]
        elif fam == 'text':
            arg = '%dd' % bump[0]; exp_st = [d + DAY * bump[0] for d in idx]
        elif fam == 'blist':
            arg = ['%db' % bump[1], '%dh' % bump[2]]; exp_st = [_bday_after(d, bump[1]) + datetime.timedelta(hours=bump[2]) for d in idx]
        else:
            arg = 'shift'; exp_st = idx[1:] + [None]
        keep = list(arg) if isinstance(arg, list) else arg
        st, b = ctx.call(Bi, s, arg)
        t_after = datetime.datetime.now()
        ctx.monitors['bump_stamps_model'] += 1
        got_st = None if st != 'ok' else [u.to_pydatetime() for u in pd.to_datetime(b['updated'])]
        if st == 'ok' and fam == 'shift' and got_st and t_before <= got_st[-1] <= t_after:
            exp_st = exp_st[:-1] + [got_st[-1]]
        if st != 'ok' or got_st != exp_st or arg != keep or list(s.index) != idx:
            ctx.fail('bump_stamps_model', 'Bi(series on %s.., %r) stamps its rows %s, each observation date bumped on its own gives %s' % ([str(d.date()) for d in idx[:4]], keep, b if st != 'ok' else [str(u) for u in got_st[:5]], [str(u) for u in exp_st[:5]]))
            return
        st, merged = ctx.call(bi_merge, store, b)
        if st != 'ok':
            ctx.ev('asof_read_last'); ctx.fail('asof_read_last', 'bi_merge of version %d stamped with Bi(ts, %r) raised %s' % (vi, keep, core.exc_str(merged)))
            return
        store = merged
        for d, v, u in zip(idx, vals, exp_st):
            ledger.setdefault(d, []).append((u, v))
            stamps.append(u)
        probe = sorted(set(stamps))
        if len(probe) > 10:
            probe = sorted(rng.sample(probe, 10))
        if not check_reads(ctx, store, ledger, probe, 'after merging version %d stamped with Bi(ts, %r)' % (vi, keep)):
            return
    ctx.cls('rows_stamped_relative_to_their_own_date:%s' % fam)
    ctx.mark_nontrivial(case)


def _nl(rows):
    return [['nan' if (isinstance(v, float) and v != v) else v for v in r] for r in rows]


def _vl(df):
    return _nl(df.values.tolist())


def check_reads(ctx, store, ledger, stamps, where, mon_prefix=None):
    from pyg_base import bi_read
    us = sorted(set(stamps))
    Ts = [us[0] - datetime.timedelta(hours=1)]
    for a, b in zip(us, us[1:] + [None]):
        Ts.append(a)
        Ts.append(a + (b - a) / 2 if b is not None else a + datetime.timedelta(hours=5))
    Ts.append(None)
    snap0 = (list(store.index), _vl(store), store.index.name, list(store.columns)) if hasattr(store, 'values') else None
    import pandas as _pd
    for ti, T in enumerate(Ts):
        for what in (-1, 0):
            # the read time in the flavours a caller may hold it in: datetime, pandas Timestamp, numpy datetime64
            Tq = T if T is None or (ti + what) % 3 == 0 else (_pd.Timestamp(T) if (ti + what) % 3 == 1 else np.datetime64(T))
            ns_ = isinstance(T, _pd.Timestamp) and T.tzinfo is None
            if ns_:
                Tq = T if (ti + what) % 2 else T.to_datetime64()        # a read time to the nanosecond: as a Timestamp or as a numpy datetime64[ns]
            if T is not None and not ns_ and getattr(T, 'tzinfo', None) is None and (ti * 7 + what + len(us)) % 4 == 0:
                # ... or in the spellings Bi / bi_merge accept for a stamp: ISO text, and for a midnight a date or a yyyymmdd integer
                midnight = T == datetime.datetime(T.year, T.month, T.day)
                epoch = (T - datetime.datetime(1970, 1, 1)) / datetime.timedelta(seconds=1)      # seconds since 1970 (UTC, like every naive stamp here): a float, or an int on a whole second
                epoch = int(epoch) if epoch == int(epoch) else epoch
                Tq = [T.isoformat(), T.date() if midnight else T.isoformat(' '), (T.year * 10000 + T.month * 100 + T.day) if midnight else T.isoformat(), epoch][(ti + len(us)) % 4]
                if isinstance(Tq, float):
                    Tq = T.isoformat()          # (whole seconds only: a float of seconds cannot carry every microsecond exactly)
                ctx.cls('read_time_as:%s' % type(Tq).__name__)
            if T is not None and getattr(T, 'tzinfo', None) is not None:
                Tq = _pd.Timestamp(T).tz_convert(['Asia/Tokyo', 'America/New_York', 'UTC'][(ti + what) % 3])      # the same instant quoted in the reader's zone
            st, res = ctx.call(bi_read, store, Tq, what)
            exp = ledger_read(ledger, T, what)
            mon = mon_prefix or ('asof_read_last' if what == -1 else 'asof_read_first')
            ctx.monitors[mon] += 1
            if st != 'ok':
                ctx.fail(mon, 'bi_read(asof=%s, what=%d) raised %s (%s)' % (T, what, core.exc_str(res), where))
                return False
            try:
                got = {k.to_pydatetime() if hasattr(k, 'to_pydatetime') else k: float(v) for k, v in zip(res.index, np.asarray(res.values).reshape(-1))}
                dup = len(res.index) != len(set(res.index))
            except Exception as e:
                ctx.fail(mon, 'bi_read(asof=%s, what=%d) returned %r (%s)' % (T, what, res, where))
                return False
            ctx.monitors['no_lookahead_rows'] += 1
            extra = sorted(set(got) - set(exp))
            if extra or dup:
                ctx.fail('no_lookahead_rows', 'bi_read(asof=%s) lists dates first published later (or twice): %s (%s)' % (T, extra[:4], where))
                return False
            bad = [(d, got.get(d), v) for d, v in sorted(exp.items()) if d not in got or not (got[d] == v or (isn(got[d]) and isn(v)))]
            if bad:
                d, g, v = bad[0]
                ctx.fail(mon, 'bi_read(asof=%s, what=%d): %d date(s) differ, e.g. %s -> %s, ledger says %s; entries for that date %s (%s)' % (T, what, len(bad), d.date(), g, v, ledger[d], where))
                return False
    if snap0 is not None:
        if not ctx.check('read_does_not_change_store', (list(store.index), _vl(store), store.index.name, list(store.columns)) == snap0, lambda: 'reading changed the store: rows, column labels or the name of its index (%r -> %r) (%s)' % (snap0[2], store.index.name, where)):
            return False
    return True


def gen_case(rng):
    nd = rng.choice([3, 5, 8, 12, 17, 20, 30])
    nv = rng.randint(2, 8)
    versions = []
    stamp = 0
    late_from = rng.choice([0, 0, nd // 2])
    pool = rng.choice([[0, 1, 2, 3, None, 1, 2], [0, 1, 2, 3, None, 1, 2], [1000000, 1000004, 1000008, None, 1000000], [0.5, 0.500001, 0.500002, None, 0.5]])   # genuine but tiny revisions
    for i in range(nv):
        if i and rng.random() < 0.6:
            stamp += rng.choice([1, 3, 24])
        lo = 0 if i >= nv // 2 else 0
        hi = nd if i >= nv // 2 or not late_from else max(late_from, 1)
        if rng.random() < 0.6:
            idx = list(range(lo, hi))
        else:
            idx = sorted(rng.sample(range(lo, hi), rng.randint(1, hi - lo)))
        vals = [rng.choice(pool) for _ in idx]
        versions.append({'stamp': stamp, 'idx': idx, 'vals': vals})
    case = {'ndates': nd, 'versions': versions}
    if rng.random() < 0.25:
        us = 0
        for v_ in versions:            # publications a few hundred microseconds apart
            us += rng.choice([0, 100, 250, 400])
            v_['us'] = us
    if rng.random() < 0.3:
        for i_, v_ in enumerate(versions):
            if rng.random() < 0.6:
                v_['as_frame'] = True
                if i_ and rng.random() < 0.5:
                    v_['idx'] = list(versions[i_ - 1]['idx']); v_['vals'] = [rng.choice(pool) for _ in v_['idx']]
    if rng.random() < 0.3:
        case['series_name'] = rng.choice(['px', 'close', 'updated_px'])
    if rng.random() < 0.25:
        case['future'] = True
    elif rng.random() < 0.2:
        case['tz'] = True
    elif rng.random() < 0.15:
        case['ns_stamps'] = True
        ns = 0
        for v_ in versions:
            ns += rng.choice([0, 1, 1, 40, 300])
            v_['ns'] = ns
    if rng.random() < 0.4:
        batch, left = [], nv
        while left:
            k = min(left, rng.choice([1, 1, 2, 3]))
            batch.append(k); left -= k
        case['batch'] = batch
    elif rng.random() < 0.25 and nv >= 2 and versions[0]['stamp'] != versions[1]['stamp']:
        case['batch'] = [2] + [1] * (nv - 2)
        case['start_plain'] = True
    if rng.random() < 0.25:
        case['forecast'] = True
    if case.get('batch') and rng.random() < 0.6:
        case['mixed_spelling'] = rng.choice([1, 2])
    if rng.random() < 0.08:
        case['now_stamps'] = rng.choice([1, 2, 3])
    elif rng.random() < 0.08:
        case['bump_stamps'] = rng.choice(['int', 'int', 'text', 'blist', 'blist', 'shift'])
    return case


def plan(tier, seed, n):
    per = 14 if tier == 'quick' else 800       # (1500 took 28-35 minutes on a busy machine before the histories grew; the shard timeout is 60)
    return [{'n': per} for _ in range(n)]


def run(spec, ctx):
    for i in range(spec['n']):
        rng = random.Random('C17/%d/%d/%d' % (spec['seed'], spec['shard'], i))
        case = gen_case(rng)
        ctx.case(case)
        ctx.run_case(case, run_case)
        if ctx.full():
            break


def replay(case, ctx):
    ctx.case(case)
    ctx.run_case(case, run_case, shrink=False)
