"""C03 - alignment puts all timeseries on the prescribed common index, values intact.

Monitor shape: pure-Python alignment model on (sorted timestamps, values) with as-of fills by bisect over the ORIGINAL observations;
every non-NaN cell carries a unique id, so a filled cell identifies the observation it came from; non-timeseries members must come
back by identity and the container structure must be preserved; for presync the probe function records what it actually received."""
import random, datetime, bisect
import numpy as np
from .. import core, codec
from ..core import same, HarnessError

ID = 'C03'
TITLE = 'alignment onto the prescribed common index, values intact'
LEVEL = 'exploration'
TECHNIQUE = 'runtime monitoring: pure-Python alignment model (bisect as-of fills over original observations) with unique cell ids, identity checks for pass-through members, presync probe function'
LEVEL_TEXT = 'Held on the nested containers explored for all join policies x fill methods; thorough runs ~300k containers. A check says held on K observed executions, never verified.'
LEVEL_NOTE = 'Trusted: the alignment model; frames under a fill method are row-complete; tuples are not generated (df_index does not search them).'
RULE = ('random nested containers (list/tuple/dict/Dict, depth<=3) of Series and 1-3 column DataFrames on a 12-day grid (and an intraday grid) so disjoint, nested, overlapping and empty '
        'indices all occur, NaN anywhere, mixed with scalars/strings/None/opaque objects; every join policy {ij, oj, lj, rj, explicit DatetimeIndex, explicit ts} x {None, ffill, bfill}; '
        'df_sync with column policies on multi-column frames; presync-decorated probe; separately collections of bare numpy arrays of different lengths; '
        'non-trivial = >=2 timeseries with neither equal nor disjoint indices, or an empty intersection, or a NaN that a fill must skip; distinct = canonical hash')
RULE_ALSO = '; added by the coverage audit and round 8: indices carrying a frequency (several out of phase), a fill switched off at the call (method = None), column-wise presync functions over frames listing one column set in different orders'
ASSUMPTIONS = ['fill methods on multi-column frames are claimed for row-complete frames only (each row all-NaN or NaN-free), where row-wise as-of and per-column last-non-NaN coincide',
               'column order of re-columned frames is not compared', 'pass-through leaves are non-container objects', 'containers are lists and dicts (incl. Dict) as the statement says; tuples are not searched for timeseries by df_index and are not generated',
               'numpy collections are exercised separately from pandas collections', 'exact int64 columns beyond 2**53 are used only under an inner join without fill (elsewhere pandas itself upcasts when NaN rows appear)']
T0 = datetime.datetime(2021, 3, 1)


def required(tier):
    return {'joint_index': 300, 'values_at_surviving_timestamps': 300, 'asof_fill': 150, 'non_ts_identity': 300, 'container_structure': 300, 'inputs_unmodified': 300,
            'presync_probe_saw_aligned': 80, 'numpy_end_aligned': 80, 'column_alignment': 60}


def isn(v):
    return v != v


class Opaque(object):
    pass


def stamp(i, intraday):
    return T0 + (datetime.timedelta(hours=i) if intraday else datetime.timedelta(days=i))


# ------------------------------------------------------------------ live objects from the case term
def build(t, intraday, registry):
    """term -> live object; registry collects (live ts, spec) in depth-first order and the non-ts leaves"""
    import pandas as pd
    from pyg_base import Dict
    if isinstance(t, dict) and 'ts' in t:
        regular = bool(t.get('freq')) and len(t['ts']) >= 1 and list(t['ts']) == list(range(t['ts'][0], t['ts'][0] + t['freq'] * len(t['ts']), t['freq']))
        key = tuple(t['ts']) + (('freq', t['freq']) if regular else ())
        if t.get('share_index') and key in registry.setdefault('idx', {}):
            idx = registry['idx'][key]      # the very same index object as an earlier series (as in c = a * 2)
        elif regular:
            # a regular index that knows its own frequency (what pd.date_range / resample / asfreq give): two of them may share the frequency and still be out of phase
            idx = pd.date_range(stamp(t['ts'][0], intraday), periods=len(t['ts']), freq=datetime.timedelta(hours=t['freq']) if intraday else datetime.timedelta(days=t['freq']))
            registry.setdefault('idx', {})[key] = idx
        else:
            idx = pd.DatetimeIndex([stamp(i, intraday) for i in t['ts']])
            registry.setdefault('idx', {})[key] = idx
        cols = t['cols']
        if len(cols) == 1 and t.get('series', True):
            obj = pd.Series([float('nan') if v is None else float(v) for v in cols[0]], index=idx, dtype=float)
        else:
            names = t.get('names') or ['c%d' % j for j in range(len(cols))]
            mat = np.array([[float('nan') if v is None else float(v) for v in c] for c in cols], dtype=float).T.reshape(len(idx), len(cols))
            obj = pd.DataFrame(mat, index=idx, columns=names)
            for j in t.get('intcols', []):
                obj[names[j]] = np.array([int(v) for v in cols[j]], dtype='int64')     # exact integers beyond 2**53
        registry['ts'].append((obj, t))
        return obj
    if isinstance(t, dict) and 'leaf' in t:
        v = t['leaf']
        obj = Opaque() if v == '$opaque' else v
        registry['leaves'].append(obj)
        return obj
    if isinstance(t, dict) and 'list' in t:
        return [build(c, intraday, registry) for c in t['list']]
    if isinstance(t, dict) and 'tuple' in t:
        return tuple(build(c, intraday, registry) for c in t['tuple'])
    if isinstance(t, dict) and 'dict' in t:
        return {k: build(c, intraday, registry) for k, c in t['dict'].items()}
    if isinstance(t, dict) and 'Dict' in t:
        return Dict({k: build(c, intraday, registry) for k, c in t['Dict'].items()})
    raise HarnessError('term %r' % (t,))


def flat_ts_terms(t, out):
    if isinstance(t, dict) and 'ts' in t:
        out.append(t)
    elif isinstance(t, dict):
        for key in ('list', 'tuple'):
            if key in t:
                for c in t[key]:
                    flat_ts_terms(c, out)
        for key in ('dict', 'Dict'):
            if key in t:
                for c in t[key].values():
                    flat_ts_terms(c, out)
    return out


def joint(specs, policy, explicit):
    if policy == 'explicit':
        return list(explicit)
    if not specs:
        return None
    sets = [list(s['ts']) for s in specs]
    if policy == 'ij':
        r = set(sets[0])
        for s in sets[1:]:
            r &= set(s)
        return sorted(r)
    if policy == 'oj':
        r = set()
        for s in sets:
            r |= set(s)
        return sorted(r)
    if policy == 'lj':
        return sets[0]
    if policy == 'rj':
        return sets[-1]
    raise HarnessError(policy)


def asof(times, vals, t, method):
    """last (ffill) / next (bfill) non-NaN observation at or before / after t, over the ORIGINAL observations"""
    obs = [(a, v) for a, v in zip(times, vals) if not isn(v)]
    ts_ = [a for a, _ in obs]
    if method == 'ffill':
        i = bisect.bisect_right(ts_, t) - 1
        return obs[i][1] if i >= 0 else float('nan')
    i = bisect.bisect_left(ts_, t)
    return obs[i][1] if i < len(obs) else float('nan')


def model_col(times, vals, index, method):
    pos = {a: v for a, v in zip(times, vals)}
    if method is None:
        return [pos.get(t, float('nan')) for t in index]
    return [asof(times, vals, t, method) for t in index]


def check_aligned(ctx, got, spec, index, method, intraday, what, mon_val='values_at_surviving_timestamps'):
    import pandas as pd
    times = spec['ts']
    cols = [[float('nan') if v is None else float(v) for v in c] for c in spec['cols']]
    is_series = len(cols) == 1 and spec.get('series', True)
    if not isinstance(got, pd.Series if is_series else pd.DataFrame):
        ctx.fail('container_structure', '%s: a %s came back as %s' % (what, 'Series' if is_series else 'DataFrame', type(got).__name__))
        return False
    gi = [t.to_pydatetime() for t in got.index]
    exp_idx = [stamp(i, intraday) for i in index]
    ctx.monitors['joint_index'] += 1
    if gi != exp_idx:
        ctx.fail('joint_index', '%s: index %s, prescribed common index %s' % (what, _short_idx(gi), _short_idx(exp_idx)))
        return False
    gcols = [got.values.tolist()] if is_series else [got.iloc[:, j].values.tolist() for j in range(got.shape[1])]
    if spec.get('intcols'):
        cols = [[float('nan') if v is None else v for v in c] for c in spec['cols']]
    if len(gcols) != len(cols):
        ctx.fail(mon_val, '%s: %d columns came back, had %d' % (what, len(gcols), len(cols)))
        return False
    mon = 'asof_fill' if method else mon_val
    src_cols = [[float('nan') if v is None else v for v in c] for c in spec.get('all_cols', spec['cols'])]       # all columns the frame came with (before column alignment)
    partial = method and len(src_cols) > 1 and any(len({isn(c[i]) for c in src_cols}) > 1 for i in range(len(times)))
    if partial:
        # a frame with rows observed in only some columns, under a fill method: what a lacked timestamp takes from such a row is not settled by the statement;
        # what is: at a timestamp the frame itself has, every observed cell keeps exactly its value
        pos = {a: i for i, a in enumerate(times)}
        for c, g in zip(cols, gcols):
            ctx.monitors[mon_val] += 1
            bad = [(t, g[j], c[pos[t]]) for j, t in enumerate(index) if t in pos and not isn(c[pos[t]]) and not (j < len(g) and g[j] == c[pos[t]])]
            if len(g) != len(index) or bad:
                ctx.fail(mon_val, '%s (method=%r): an observed cell changed at a timestamp the frame has: %s (returned, original); obs %s at %s' % (what, method, bad[:3], c, times))
                return False
        return True
    for c, g in zip(cols, gcols):
        exp = model_col(times, c, index, method)
        ctx.monitors[mon] += 1
        if not (len(g) == len(exp) and all((isn(a) and isn(b)) or a == b for a, b in zip(g, exp))):
            ctx.fail(mon, '%s (method=%r): values %s, model %s ; original obs %s at %s' % (what, method, g, exp, c, times))
            return False
    return True


def _short_idx(ix):
    return [t.strftime('%m-%d %H') for t in ix[:14]]


def walk_pairs(term, live, out, path='x'):
    """pairs (term leaf, returned object) in depth first order + structural checks"""
    if isinstance(term, dict) and ('ts' in term or 'leaf' in term):
        out.append((term, live, path))
        return True
    for key, tp in (('list', list), ('tuple', tuple)):
        if isinstance(term, dict) and key in term:
            if type(live) is not tp or len(live) != len(term[key]):
                out.append(('STRUCT', '%s: expected %s of %d, got %r' % (path, key, len(term[key]), type(live)), path))
                return False
            return all(walk_pairs(c, v, out, '%s[%d]' % (path, i)) for i, (c, v) in enumerate(zip(term[key], live)))
    for key in ('dict', 'Dict'):
        if isinstance(term, dict) and key in term:
            from pyg_base import Dict
            tp = dict if key == 'dict' else Dict
            if type(live) is not tp or list(live.keys()) != list(term[key].keys()):
                out.append(('STRUCT', '%s: expected %s with keys %s, got %s %r' % (path, key, list(term[key].keys()), type(live).__name__, list(live.keys()) if isinstance(live, dict) else live), path))
                return False
            return all(walk_pairs(c, live[k], out, '%s[%r]' % (path, k)) for k, c in term[key].items())
    raise HarnessError('walk %r' % (term,))


def snap_ts(registry):
    return [(list(o.index), o.values.tolist(), list(o.columns) if hasattr(o, 'columns') else None) for o, _ in registry['ts']]


def run_sync(case, ctx):
    import pandas as pd
    from pyg_base import df_sync, df_reindex, df_index, presync
    intraday = case['intraday']
    reg = {'ts': [], 'leaves': []}
    x = build(case['x'], intraday, reg)
    specs = [s for _, s in reg['ts']]
    policy, method = case['policy'], case['method']
    explicit = case.get('explicit')
    before = snap_ts(reg)
    m_arg = [method] if (case.get('method_as_list') and method) else method      # one list object holding the fill method: every series of the collection is filled from it
    index = joint(specs, policy, explicit)
    api = case['api']
    if policy == 'explicit':
        eidx = pd.DatetimeIndex([stamp(i, intraday) for i in explicit])
        idx_arg = eidx if case.get('explicit_as') != 'ts' else pd.Series(0.0, index=eidx)
    else:
        idx_arg = {'ij': 'ij', 'oj': 'oj', 'lj': 'lj', 'rj': 'rj'}[policy] if not case.get('long_names') else {'ij': 'inner', 'oj': 'outer', 'lj': 'left', 'rj': 'right'}[policy]
    if api == 'df_sync':
        st, res = ctx.call(df_sync, x, idx_arg, m_arg, case.get('columns', 'ij') if case.get('multi') else False)
    elif api == 'df_reindex':
        st, res = ctx.call(df_reindex, x, idx_arg, m_arg)
    else:
        raise HarnessError(api)
    if isinstance(m_arg, list):
        ctx.check('inputs_unmodified', m_arg == [method], lambda: '%s consumed / edited the list of fill methods it was given: %r -> %r' % (api, [method], m_arg))
        ctx.cls('fill_method_given_as_a_list')
    if st != 'ok':
        ctx.ev('joint_index'); ctx.fail('joint_index', '%s(%r, %r, %r) raised %s' % (api, case['x'], idx_arg if isinstance(idx_arg, str) else 'explicit', method, core.exc_str(res)))
        return
    if index is None:
        return
    if policy != 'explicit':
        sti, di = ctx.call(df_index, x, idx_arg)
        ctx.check('joint_index', sti == 'ok' and di is not None and [t.to_pydatetime() for t in di] == [stamp(i, intraday) for i in index], lambda: 'df_index(%s) = %s, model %s' % (policy, list(di)[:10] if sti == 'ok' and di is not None else di, index))
    pairs = []
    okstruct = walk_pairs(case['x'], res, pairs)
    ctx.check('container_structure', okstruct, lambda: [p for p in pairs if p[0] == 'STRUCT'][:1])
    if not okstruct:
        return
    leaves = iter(reg['leaves'])
    colspec = None
    if api == 'df_sync' and case.get('multi') and case.get('columns'):
        multis = [s for s in specs if len(s['cols']) > 1]
        if multis:
            sets = [s['names'] for s in multis]
            colspec = sorted(set.intersection(*map(set, sets))) if case['columns'] == 'ij' else sorted(set.union(*map(set, sets)))
    for term, got, path in pairs:
        if 'leaf' in term:
            orig = next(leaves)
            ctx.check('non_ts_identity', got is orig, lambda: '%s: non-timeseries member %r came back as %r (not the same object)' % (path, orig, got))
            continue
        spec = term
        if colspec is not None and len(spec['cols']) > 1:
            # multi-column frames onto the common column set: kept columns keep their values, new columns are NaN
            ctx.monitors['column_alignment'] += 1
            if not isinstance(got, pd.DataFrame) or sorted(got.columns) != colspec:
                ctx.fail('column_alignment', '%s: columns %s, common column set %s' % (path, list(getattr(got, 'columns', [])), colspec))
                return
            sub = dict(spec, series=False, names=colspec, all_cols=spec['cols'], cols=[spec['cols'][spec['names'].index(c)] if c in spec['names'] else [None] * len(spec['ts']) for c in colspec])
            got2 = got[colspec]
            if not check_aligned(ctx, got2, sub, index, method, intraday, '%s %s' % (api, path)):
                return
        else:
            if not check_aligned(ctx, got, spec, index, method, intraday, '%s %s' % (api, path)):
                return
    ctx.check('inputs_unmodified', all(a[0] == b[0] and same(a[1], b[1]) and a[2] == b[2] for a, b in zip(before, snap_ts(reg))), lambda: 'an input timeseries was modified')
    _classify(ctx, case, specs, index, method)


def _classify(ctx, case, specs, index, method):
    sets = [set(s['ts']) for s in specs]
    nt = False
    if len(sets) >= 2 and any(a != b and a & b for a in sets for b in sets):
        nt = True
        ctx.cls('partial_overlap')
    if len(sets) >= 2 and index == [] and case['policy'] == 'ij':
        nt = True
        ctx.cls('empty_intersection')
    if method and any(v is None for s in specs for c in s['cols'] for v in c):
        nt = True
        ctx.cls('fill_skips_nan')
    if any(len(s['ts']) == 0 for s in specs):
        ctx.cls('has_empty_ts')
    if nt:
        ctx.mark_nontrivial(case)
    ctx.cls('policy:%s/%s' % (case['policy'], method))


def run_presync(case, ctx):
    import pandas as pd
    from pyg_base import presync
    intraday = case['intraday']
    reg = {'ts': [], 'leaves': []}
    args = [build(t, intraday, reg) for t in case['args']]
    kw = {k: build(t, intraday, reg) for k, t in case['kwargs'].items()}
    specs = [s for _, s in reg['ts']]
    policy, method = case['policy'], case['method']
    seen = []

    def probe(a, b=None, c=None):
        seen.append((a, b, c))
        return a
    if case.get('variadic') and not case['kwargs'] and args:
        # the decorated function takes its timeseries through a catch-all: they are arguments like any other
        if case['variadic'] == 'all':
            def probe(*legs):
                seen.append(tuple(legs) + (None,) * (3 - len(legs)))
                return legs[0]
        else:
            def probe(first, *others):
                seen.append((first,) + tuple(others) + (None,) * (2 - len(others)))
                return first
        ctx.cls('presync:variadic_function')
    form = case.get('form', 'ctor')
    call_kw = {}
    if form == 'ctor' and case.get('fill_off_at_call'):
        # decorated with a fill method, the call says method = None: no fill for this call
        dec = presync(probe, index={'ij': 'inner', 'oj': 'outer', 'lj': 'left', 'rj': 'right'}.get(policy, 'inner'), method=case['fill_off_at_call'], columns=False)
        call_kw = {'method': None}
        method = None
        ctx.cls('presync:fill_switched_off_at_call')
    elif form == 'ctor':
        dec = presync(probe, index={'ij': 'inner', 'oj': 'outer', 'lj': 'left', 'rj': 'right'}.get(policy, 'inner'), method=method, columns=False)
    elif policy == 'explicit':
        dec = None
    elif form in ('chain_join_first', 'chain_fill_first'):
        dec = presync(probe, columns=False)
        steps = [policy] + ([method] if method else [])
        if form == 'chain_fill_first':
            steps = steps[::-1]
        for sname in steps:
            dec = getattr(dec, sname)
    else:   # call-time keywords
        dec = presync(probe, columns=False)
        call_kw = {'join': policy}
        if method:
            call_kw['method'] = method
    index = joint(specs, policy, case.get('explicit'))
    if policy == 'explicit':
        import pandas as pd
        eidx = pd.DatetimeIndex([stamp(i, intraday) for i in case['explicit']])
        dec = presync(probe, index=eidx, method=method, columns=False)
        call_kw = {}
    st, res = ctx.call(dec, *args, **dict(kw, **call_kw))
    ctx.cls('presync:' + (form if policy != 'explicit' else 'explicit_index'))
    if st != 'ok' or len(seen) != 1:
        ctx.ev('presync_probe_saw_aligned'); ctx.fail('presync_probe_saw_aligned', 'presync(probe)(...) -> %s %r ; probe called %d times' % (st, res, len(seen)))
        return
    if index is None:
        return
    terms = list(case['args']) + [None] * (3 - len(case['args']))
    names = ['a', 'b', 'c']
    for i, nm in enumerate(names):
        if nm in case['kwargs']:
            terms[i] = case['kwargs'][nm]
    leaves = iter(reg['leaves'])
    ok = True
    # identity of leaves is consumed in build order: args then kwargs
    order = list(range(len(case['args']))) + [names.index(k) for k in case['kwargs']]
    for i in order:
        term, got = terms[i], seen[0][i]
        pairs = []
        if not walk_pairs(term, got, pairs, names[i]):
            ctx.fail('container_structure', 'presync: %s' % [p for p in pairs if p[0] == 'STRUCT'][:1])
            return
        for tm, g, path in pairs:
            if 'leaf' in tm:
                o = next(leaves)
                ctx.check('non_ts_identity', g is o, lambda: 'presync %s: leaf %r came through as %r' % (path, o, g))
            else:
                if not check_aligned(ctx, g, tm, index, method, intraday, 'inside presync-decorated function, %s' % path):
                    return
    ctx.monitors['presync_probe_saw_aligned'] += 1
    _classify(ctx, case, specs, index, method)


def run_presync_cols(case, ctx):
    """a presync-decorated function of two or three multi-column frames: it is applied column by column, the columns paired BY LABEL
    (the common column set), whatever order each frame lists them in; rows on the joint (inner) index"""
    import pandas as pd
    from pyg_base import presync
    reg = {'ts': [], 'leaves': []}
    frames = [build(t, case['intraday'], reg) for t in case['frames']]
    before = snap_ts(reg)
    coef = [1.0, -2.0, 0.5][:len(frames)]

    def f(a, b, c=None):
        return a * coef[0] + b * coef[1] + (0 if c is None else c * coef[2])
    dec = presync(f)
    st, res = ctx.call(dec, *frames) if not case.get('by_kw') else ctx.call(dec, frames[0], b=frames[1], **({'c': frames[2]} if len(frames) > 2 else {}))
    common = sorted(set.intersection(*[set(fr.columns) for fr in frames]))
    idx = frames[0].index
    for fr in frames[1:]:
        idx = idx.intersection(fr.index)
    ctx.ev('column_alignment')
    ctx.cls('presync_columns:%s' % ('same_set_permuted' if len({tuple(sorted(fr.columns)) for fr in frames}) == 1 and len({tuple(fr.columns) for fr in frames}) > 1 else
                                   'same_order' if len({tuple(fr.columns) for fr in frames}) == 1 else 'different_sets'))
    if st != 'ok' or not isinstance(res, pd.DataFrame):
        ctx.fail('column_alignment', 'presync(f)(frames with columns %s) -> %s %r' % ([list(fr.columns) for fr in frames], st, res))
        return
    if sorted(res.columns) != common or list(res.index) != list(idx):
        ctx.fail('column_alignment', 'presync(f)(frames with columns %s): result columns %s index %s; common columns %s, joint index %s' % ([list(fr.columns) for fr in frames], list(res.columns), list(res.index), common, list(idx)))
        return
    for c in common:
        exp = sum(fr[c].reindex(idx) * k for fr, k in zip(frames, coef))
        got = res[c]
        bad = [(t, g, e) for t, g, e in zip(idx, got.values.tolist(), exp.values.tolist()) if not ((isn(g) and isn(e)) or g == e)]
        if bad:
            ctx.fail('column_alignment', 'presync(f)(frames with columns %s): column %r holds %s at %s, pairing the columns by label gives %s' % ([list(fr.columns) for fr in frames], c, bad[0][1], bad[0][0], bad[0][2]))
            return
    ctx.check('inputs_unmodified', all(a[0] == b[0] and same(a[1], b[1]) and a[2] == b[2] for a, b in zip(before, snap_ts(reg))), lambda: 'presync modified its inputs')
    if len({tuple(fr.columns) for fr in frames}) > 1:
        ctx.mark_nontrivial(case)


def run_numpy(case, ctx):
    from pyg_base import df_sync, df_reindex, df_index
    arrs = [np.array(a, dtype=float) if not isinstance(a, dict) else np.array(a['m'], dtype=float).reshape(len(a['m']), a['k']) for a in case['arrays']]
    for i_, dt_ in enumerate(case.get('dtypes') or []):
        if dt_ != 'float' and arrs[i_].ndim == 1:      # integer / bool arrays: padding still means NaN, never a cast of NaN
            arrs[i_] = (arrs[i_] % 2 == 0) if dt_ == 'bool' else arrs[i_].astype(dt_)
    before = [a.copy() for a in arrs]
    if case.get('readonly'):
        for a_ in arrs:
            a_.flags.writeable = False      # arrays the caller has frozen: aligning builds new ones
    cont = list(arrs) if case['cont'] == 'list' else {('k%d' % i): a for i, a in enumerate(arrs)}
    policy = case['policy']
    lens = [len(a) for a in arrs]
    n = {'ij': min(lens), 'oj': max(lens), 'lj': lens[0], 'rj': lens[-1]}[policy]
    meth = case.get('method')
    if meth:
        st, res = ctx.call(df_reindex, cont, policy, method=meth) if case['api'] == 'df_reindex' else ctx.call(df_sync, cont, policy, method=meth)
    else:
        st, res = ctx.call(df_reindex, cont, policy) if case['api'] == 'df_reindex' else ctx.call(df_sync, cont, policy)
    ctx.monitors['numpy_end_aligned'] += 1
    if st != 'ok':
        ctx.fail('numpy_end_aligned', 'aligning arrays of lengths %s with %s raised %s' % (lens, policy, core.exc_str(res)))
        return
    outs = list(res) if case['cont'] == 'list' else [res[k] for k in cont]
    if type(res) is not type(cont) or len(outs) != len(arrs):
        ctx.fail('container_structure', 'numpy collection came back as %r' % (res,))
        return
    for a, o in zip(arrs, outs):
        if len(a) >= n:
            exp = a[len(a) - n:]
        else:
            pad = np.full((n - len(a),) + a.shape[1:], np.nan)
            exp = np.concatenate([pad, a])
        if meth and len(exp):
            # the fill acts on the aligned array: a padded row takes the next observation under bfill and stays NaN under ffill; nothing that was cut away is seen
            import pandas as pd
            e2 = pd.DataFrame(np.asarray(exp, dtype=float).reshape(len(exp), -1))
            exp = (e2.ffill() if meth == 'ffill' else e2.bfill()).values.reshape(np.asarray(exp).shape)
        okk = isinstance(o, np.ndarray) and o.shape == exp.shape and all((isn(p) and isn(q)) or p == q for p, q in zip(o.reshape(-1).tolist(), exp.reshape(-1).tolist()))
        if not okk:
            ctx.fail('numpy_end_aligned', 'array of length %d aligned to %d (%s): got %r expected %r' % (len(a), n, policy, o, exp))
            return
    ctx.check('inputs_unmodified', all(a.shape == b.shape and np.array_equal(a, b, equal_nan=True) for a, b in zip(arrs, before)), lambda: 'input array modified')
    if len(set(lens)) > 1:
        ctx.mark_nontrivial(case)
    ctx.cls('numpy:%s' % policy)


def run_case(case, ctx):
    return {'sync': run_sync, 'presync': run_presync, 'numpy': run_numpy, 'presync_cols': run_presync_cols}[case['kind']](case, ctx)


# ------------------------------------------------------------------ generators
class IdGen(object):
    def __init__(self):
        self.n = 0

    def __call__(self):
        self.n += 1
        return float(self.n)


_GRID = [12]


def gen_ts(rng, ids, multi_ok, rowcomplete, grid=12, intcols_ok=False):
    grid = _GRID[0] if grid == 12 else grid
    mode = rng.random()
    if mode < 0.08:
        ts = []
    elif mode < 0.3:
        a = rng.randrange(grid); b = rng.randrange(a, grid)
        ts = list(range(a, b + 1))
    else:
        ts = sorted(rng.sample(range(grid), rng.randint(1, grid)))
    freq = None
    if rng.random() < 0.15:
        freq = rng.choice([1, 2, 2, 3])
        a = rng.randrange(freq + 1)
        ts = list(range(a, grid, freq))[:rng.randint(1, grid)]
    k = rng.choice([1, 1, 1, 2, 3]) if multi_ok else 1
    pn = rng.choice([0, 0.15, 0.4])
    cols = [[None if rng.random() < pn else ids() for _ in ts] for _ in range(k)]
    if k > 1 and rowcomplete:
        for i in range(len(ts)):
            if any(c[i] is None for c in cols):
                for c in cols:
                    c[i] = None
    spec = {'ts': ts, 'cols': cols}
    if rng.random() < 0.12:
        # infinite observations are observations: they keep their place and their value under every join and fill ('inf' / '-inf' are read by float())
        for c in cols:
            for i in range(len(c)):
                if c[i] is not None and rng.random() < 0.3:
                    c[i] = rng.choice(['inf', '-inf'])
        spec['inf'] = True
    if freq:
        spec['freq'] = freq
    if rng.random() < 0.5:
        spec['share_index'] = True
    if k > 1:
        spec['names'] = rng.sample(['p', 'q', 'r', 's'], k)
        if rng.random() < 0.25 and ts and intcols_ok and not spec.get('inf'):
            j = rng.randrange(k)
            cols[j] = [2 ** 53 + 1 + 2 * int(ids()) for _ in ts]
            spec['intcols'] = [j]
    elif rng.random() < 0.2 and multi_ok:
        spec['series'] = False
        spec['names'] = [rng.choice(['p', 'q'])]
    return spec


def gen_leaf(rng):
    return {'leaf': rng.choice([1, 2.5, 'text', None, '$opaque', True, ''])}


def gen_container(rng, ids, depth, multi_ok, rowcomplete, intcols_ok=False):
    r = rng.random()
    if depth >= 3 or (depth > 0 and r < 0.55):
        return gen_ts(rng, ids, multi_ok, rowcomplete, intcols_ok=intcols_ok) if rng.random() < 0.7 else gen_leaf(rng)
    n = rng.randint(1, 4) if depth == 0 else rng.randint(0, 3)
    k = rng.choice(['list', 'list', 'dict', 'Dict'])
    kids = [gen_container(rng, ids, depth + 1, multi_ok, rowcomplete, intcols_ok) for _ in range(n)]
    if k in ('list', 'tuple'):
        return {k: kids}
    names = ['k%d' % i for i in range(len(kids))]
    rng.shuffle(names)                      # insertion order is not the sorted key order
    return {k: {nm: c for nm, c in zip(names, kids)}}


def gen_case(rng):
    _GRID[0] = 12 if rng.random() > 0.03 else 140        # a few long series in every tier
    r = rng.random()
    ids = IdGen()
    method = rng.choice([None, None, 'ffill', 'bfill'])
    policy = rng.choice(['ij', 'oj', 'lj', 'rj', 'explicit', 'ij', 'oj'])
    intraday = rng.random() < 0.2
    if r < 0.12:
        arrays = []
        for _ in range(rng.randint(1, 4)):
            n = rng.choice([0, 1, 2, 3, 5, 8])
            if rng.random() < 0.3:
                k = rng.choice([2, 3])
                arrays.append({'m': [[ids() if rng.random() > 0.2 else float('nan') for _ in range(k)] for _ in range(n)], 'k': k})
            else:
                arrays.append([ids() for _ in range(n)])
        # json cannot hold nan: encode as None
        arrays = [a if not isinstance(a, dict) else a for a in arrays]
        if any(isinstance(a, dict) for a in arrays) and len({a['k'] for a in arrays if isinstance(a, dict)}) > 1:
            arrays = [a for a in arrays if not isinstance(a, dict)] or [[1.0, 2.0]]
        case = {'kind': 'numpy', 'arrays': arrays, 'policy': rng.choice(['ij', 'oj', 'lj', 'rj']), 'cont': rng.choice(['list', 'dict']), 'api': rng.choice(['df_reindex', 'df_sync'])}
        if rng.random() < 0.25:
            case['readonly'] = True
        if rng.random() < 0.4:
            case['dtypes'] = [rng.choice(['float', 'int64', 'int32', 'bool']) for _ in arrays]
        elif rng.random() < 0.5:
            case['method'] = rng.choice(['ffill', 'bfill'])
            for a_ in arrays:     # some missing observations inside the arrays
                if isinstance(a_, list):
                    for i_ in range(len(a_)):
                        if rng.random() < 0.3:
                            a_[i_] = float('nan')
        return case
    if r < 0.3 and rng.random() < 0.2:
        # two or three complete multi-column frames for a column-wise presync function: labels from one pool, each frame in its own order
        nf = rng.choice([2, 2, 3])
        pool = rng.choice([['p', 'q'], ['p', 'q', 'r'], ['p', 'q', 'r', 's']])
        same_set = rng.random() < 0.6
        frames = []
        for _ in range(nf):
            names = list(pool) if same_set else rng.sample(pool, rng.randint(2, len(pool)))
            if rng.random() < 0.7:
                rng.shuffle(names)
            a = rng.randrange(6); b = rng.randrange(a + 2, 12)
            ts = list(range(a, b + 1)) if rng.random() < 0.5 else sorted(rng.sample(range(12), rng.randint(3, 10)))
            frames.append({'ts': ts, 'cols': [[ids() if rng.random() > 0.1 else None for _ in ts] for _ in names], 'names': names, 'series': False})
        if len(set.intersection(*[set(f_['names']) for f_ in frames])) >= 1:
            return {'kind': 'presync_cols', 'frames': frames, 'intraday': intraday, 'by_kw': rng.random() < 0.3}
    if r < 0.3:
        nargs = rng.randint(1, 3)
        items = [gen_container(rng, ids, rng.choice([1, 2, 3]), False, True) for _ in range(3)]
        if 'ts' not in items[0] and not flat_ts_terms(items[0], []):
            items[0] = gen_ts(rng, ids, False, True)
        args = items[:nargs]
        kwargs = {}
        for nm, it in zip(['b', 'c'][nargs - 1:], items[nargs:]):
            if rng.random() < 0.6:
                kwargs[nm] = it
        c_ = {'kind': 'presync', 'args': args, 'kwargs': kwargs, 'policy': policy, 'method': method, 'intraday': intraday,
              'form': rng.choice(['ctor', 'chain_join_first', 'chain_fill_first', 'call_kw'])}
        if policy == 'explicit':
            c_['explicit'] = sorted(rng.sample(range(-2, 14), rng.randint(0, 8)))
            if rng.random() < 0.5:      # exactly one timeseries among the arguments
                c_['args'] = [gen_ts(rng, ids, False, True)]
                c_['kwargs'] = {}
        if not c_['kwargs'] and rng.random() < 0.5 and c_['form'] != 'call_kw':
            c_['variadic'] = rng.choice(['all', 'rest'])
        if c_['form'] == 'ctor' and policy != 'explicit' and rng.random() < 0.25:
            c_['fill_off_at_call'] = rng.choice(['ffill', 'bfill'])
        return c_
    multi = rng.random() < 0.35
    api = rng.choice(['df_sync', 'df_reindex']) if not multi else 'df_sync'
    # exact int64 columns beyond 2**53 only where alignment introduces no NaN (inner join, no fill): pandas itself upcasts otherwise
    x = gen_container(rng, ids, 0, multi, method is not None and rng.random() < 0.7, intcols_ok=(policy == 'ij' and method is None))
    if rng.random() < 0.12:
        # every timeseries on the very same index object (built on one calendar)
        tss = flat_ts_terms(x, [])
        if tss:
            ts0 = tss[0]['ts']
            for t_ in tss:
                t_['cols'] = [[(c[i] if i < len(c) else ids()) for i in range(len(ts0))] for c in t_['cols']]
                t_['ts'] = list(ts0)
                t_['share_index'] = True
                t_.pop('intcols', None)
    case = {'kind': 'sync', 'x': x, 'policy': policy, 'method': method, 'intraday': intraday, 'api': api, 'multi': multi, 'long_names': rng.random() < 0.3}
    if method and rng.random() < 0.3:
        case['method_as_list'] = True
    if multi:
        case['columns'] = rng.choice(['ij', 'oj'])
    if policy == 'explicit':
        case['explicit'] = sorted(rng.sample(range(-2, 14), rng.randint(0, 8)))
        case['explicit_as'] = rng.choice(['index', 'ts'])
        if case['explicit_as'] == 'ts' and not case['explicit']:
            case['explicit_as'] = 'index'
    return case


def plan(tier, seed, n):
    per = 400 if tier == 'quick' else 20000
    return [{'n': per} for _ in range(n)]


def run(spec, ctx):
    for i in range(spec['n']):
        rng = random.Random('C03/%d/%d/%d' % (spec['seed'], spec['shard'], i))
        case = gen_case(rng)
        ctx.case(case)
        ctx.run_case(case, run_case)
        if ctx.full():
            break


def replay(case, ctx):
    ctx.case(case)
    ctx.run_case(case, run_case, shrink=False)
