"""C11 - listby/unlist, groupby/ungroup and pivot/unpivot are lossless regroupings.

Monitor shape: reference model on row lists; every row carries a unique id so membership/order is unambiguous."""
import random, functools, collections
from .. import core, codec, gen
from ..core import same, HarnessError
from .C02 import keq, canon, rowkey

ID = 'C11'
TITLE = 'listby/unlist, groupby/ungroup, pivot/unpivot lossless'
LEVEL = 'exploration'
TECHNIQUE = 'runtime monitoring: reference model on row lists with unique ids (groups by == on key tuples, pivot cells, unpivot round trip)'
LEVEL_TEXT = 'Held on the tables explored with mixed-type key columns and heavy duplication. A check says held on K observed executions, never verified.'
LEVEL_NOTE = "Trusted: ordering comparator is the real cmp (C07); NaN keys are C02/C07's."
RULE = ('random tables (0-10 rows, 2-5 columns, heavy key duplication, mixed-type key columns None/int/float/str/datetime, NaN only in non-key cells), any '
        'non-empty proper subset of columns as keys; pivot with str/int y labels, z never None, agg in {None, first, last, len}; '
        'non-trivial = >=1 key with >=2 rows and >=2 distinct keys; distinct = canonical hash')
RULE_ALSO = '; added by the coverage audit and round 8: pivot of tables without rows, tz-aware key columns'
ASSUMPTIONS = ['keys are distinct under == on tuples (1 and 1.0 are one key, as the library and Python do)', 'NaN keys belong to C02/C07 and are not generated here',
               'y labels do not collide with column names or with each other after int->str rendering', 'ordering comparator is the real cmp (laws monitored by C07)']


def required(tier):
    return {'listby_model': 200, 'unlist_sorted_original': 200, 'groupby_model': 150, 'ungroup_multiset': 150, 'pivot_model': 150, 'unpivot_roundtrip': 150}


def kcell(rng, kind):
    if kind == 'int':
        return rng.choice([0, 1, 2])
    if kind == 'str':
        return rng.choice(['x', 'y', 'ab', 'b', ''])
    if kind == 'num':
        return rng.choice([0, 1, 1.0, 2.5, 2])
    if kind == 'npfloat':
        return rng.choice([{'$np': ['float64', 1.0]}, 1, 1.0, {'$np': ['float64', 2.5]}, 2.5, 2, {'$np': ['float64', 2.0]}])
    if kind == 'bigint':
        return rng.choice([2 ** 53, 2 ** 53 + 1, 2 ** 53 + 2, float(2 ** 53), 5, 1577836800000000000, 1577836800000000001])     # distinct ids / epoch-ns stamps that round to one double
    if kind == 'numnan':
        return rng.choice([0, 1, 1.0, 2.5, {'$nan': rng.randrange(9)}, {'$nan': 'np'}, {'$nan': rng.randrange(9)}])
    if kind == 'dt':
        return {'$dt': rng.choice(['2020-01-01T00:00:00', '2021-06-30T00:00:00'])}
    if kind == 'pdns':      # stamps a few nanoseconds apart (pandas Timestamps carry them): different keys
        return rng.choice([{'$pdts': '2020-01-01T00:00:00'}, {'$pdts': '2020-01-01T00:00:00.000000001'}, {'$pdts': '2020-01-01T00:00:00.000000002'}, {'$dt': '2020-01-01T00:00:00'}, {'$pdts': '2020-01-01T00:00:00.000001'}])
    if kind == 'dtz':
        # timezone-aware stamps: different instants that read the same on the wall clock of their own zone are different keys
        return {'$dt': rng.choice(['2020-01-01T09:30:00+00:00', '2020-01-01T09:30:00+01:00', '2020-01-01T09:30:00-05:00', '2020-01-01T10:30:00+00:00', '2020-01-01T09:30:00+09:00'])}
    return rng.choice([None, 0, 1, 1.0, 2.5, 'x', 'ab', '', {'$dt': '2020-01-01T00:00:00'}])


def groups(rows, keys):
    """[(keytuple, [rows in original order])] keyed by == on tuples"""
    out = []
    for r in rows:
        k = tuple(r[c] for c in keys)
        for kk, rs in out:
            if keq(kk, k):
                rs.append(r)
                break
        else:
            out.append((k, [r]))
    return out


def run_listby(case, ctx):
    from pyg_base import dictable, cmp
    sess = codec._Session()
    cols = {c: codec.dec(v, sess) for c, v in case['cols'].items()}
    n = len(cols['id'])
    d = dictable(cols) if n else dictable([], list(cols))
    rows = [dict(r) for r in d]
    keys = case['keys']
    others = [c for c in cols if c not in keys]
    snap0 = core.snap(dict(d))
    g = groups(rows, keys)
    how = case['how']
    if how == 'listby':
        st, lb = ctx.call(d.listby, *keys) if case.get('star', True) else ctx.call(d.listby, list(keys))
        if st != 'ok':
            ctx.ev('listby_model'); ctx.fail('listby_model', 'listby raised %s' % core.exc_str(lb)); return
        if n == 0:
            ctx.check('listby_model', len(lb) == 0 and sorted(lb.keys()) == sorted(cols), lambda: 'listby of empty table: %r' % lb)
            return
        ok = type(lb) is dictable and len(lb) == len(g) and sorted(lb.keys()) == sorted(cols)
        if ok:
            for r in lb:
                k = tuple(r[c] for c in keys)
                m = [rs for kk, rs in g if keq(kk, k)]
                if len(m) != 1 or any(not isinstance(r[c], list) or not same(r[c], [x[c] for x in m[0]]) for c in others):
                    ok = False
                    break
            ks = [tuple(r[c] for c in keys) for r in lb]
            ok = ok and all(cmp(a, b) < 0 for a, b in zip(ks, ks[1:]))
        ctx.check('listby_model', ok, lambda: 'listby(%s): %s\nmodel groups %s' % (keys, [dict(r) for r in lb], g))
        st2, ul = ctx.call(lb.unlist)
        exp = sorted(rows, key=functools.cmp_to_key(lambda a, b: cmp(tuple(a[c] for c in keys), tuple(b[c] for c in keys))))
        ok2 = st2 == 'ok' and type(ul) is dictable and sorted(ul.keys()) == sorted(cols) and len(ul) == n and all(same(dict(a), b) for a, b in zip(ul, exp))
        ctx.check('unlist_sorted_original', ok2, lambda: 'unlist(listby) = %s\nexpected (stable sort by keys) %s' % ([dict(r) for r in ul] if st2 == 'ok' else ul, exp))
        if ok and ok2:
            # the listed table is an operand of unlist: its cells still list their key's values, and unlisting it again gives the same rows
            sizes = [len(r[c]) for r in lb for c in others[:1]]
            st3, ul2 = ctx.call(lb.unlist)
            ok3 = (not others or sum(sizes) == n) and st3 == 'ok' and len(ul2) == n and all(same(dict(a), b) for a, b in zip(ul2, exp))
            ctx.check('unlist_sorted_original', ok3, lambda: 'after one unlist() the listed table changed: cell lengths %s (len(d)=%d); second unlist %s' % (sizes, n, [dict(r) for r in ul2] if st3 == 'ok' else ul2))
    else:
        GRP = case.get('grp', 'grp')
        st, gb = ctx.call(d.groupby, *keys) if GRP == 'grp' else ctx.call(d.groupby, *keys, grp=GRP)
        if st != 'ok':
            ctx.ev('groupby_model'); ctx.fail('groupby_model', 'groupby raised %s' % core.exc_str(gb)); return
        if n == 0:
            ctx.check('groupby_model', len(gb) == 0, lambda: 'groupby of empty table: %r' % gb)
            return
        ok = type(gb) is dictable and len(gb) == len(g) and sorted(gb.keys()) == sorted(keys + [GRP])
        if ok:
            tot = 0
            for r in gb:
                k = tuple(r[c] for c in keys)
                m = [rs for kk, rs in g if keq(kk, k)]
                sub = r[GRP]
                if len(m) != 1 or type(sub) is not dictable or sorted(sub.keys()) != sorted(others) or len(sub) != len(m[0]) or \
                        any(not same(dict(a), {c: b[c] for c in others}) for a, b in zip(sub, m[0])):
                    ok = False
                    break
                tot += len(sub)
            ok = ok and tot == n
        ctx.check('groupby_model', ok, lambda: 'groupby(%s): %s\nmodel %s' % (keys, [dict(r) for r in gb], g))
        ungroup = (lambda: gb.ungroup()) if GRP == 'grp' else (lambda: gb.ungroup(GRP))
        st2, ug = ctx.call(ungroup)
        ok2 = st2 == 'ok' and type(ug) is dictable and sorted(ug.keys()) == sorted(cols) and \
            collections.Counter(rowkey(dict(r)) for r in ug) == collections.Counter(rowkey(r) for r in rows)
        ctx.check('ungroup_multiset', ok2, lambda: 'ungroup(groupby) = %s\noriginal %s' % ([dict(r) for r in ug] if st2 == 'ok' else ug, rows))
        if ok and ok2:
            # the grouped table is an operand of ungroup: it must still hold the same groups, and ungrouping again gives the same rows
            sizes = [len(r[GRP]) for r in gb]
            st3, ug2 = ctx.call(ungroup)
            ok3 = sum(sizes) == n and st3 == 'ok' and collections.Counter(rowkey(dict(r)) for r in ug2) == collections.Counter(rowkey(r) for r in rows)
            ctx.check('ungroup_multiset', ok3, lambda: 'after one ungroup() the grouped table changed: sub-table sizes %s (len(d)=%d); second ungroup %s' % (sizes, n, [dict(r) for r in ug2] if st3 == 'ok' else ug2))
    ctx.check('operands_unchanged', core.snap_same(core.snap(dict(d)), snap0), lambda: 'table modified')
    if case.get('phase2') and n >= 2:
        # the same table object after a key column was reassigned in place: nothing remembered from the first call may leak
        c0 = keys[0]
        col = list(d[c0])
        via = case.get('phase2_via') or 'item'
        if via == 'update':
            d.update({c0: col[1:] + col[:1]})
        elif via == 'ior':
            d |= {c0: col[1:] + col[:1]}
        elif via == 'update_table':
            d.update(dictable({c0: col[1:] + col[:1]}))         # the new key column handed over as a table of the same length
        elif via == 'ior_table':
            d |= dictable({c0: col[1:] + col[:1]})
        else:
            d[c0] = col[1:] + col[:1]
        ctx.cls('key_reassigned_via:%s' % via)
        rows2 = [dict(r) for r in d]
        g2 = groups(rows2, keys)
        if how == 'listby':
            st3, lb2 = ctx.call(d.listby, *keys)
            ok3 = st3 == 'ok' and len(lb2) == len(g2)
            if ok3:
                for r in lb2:
                    k = tuple(r[c] for c in keys)
                    m = [rs for kk, rs in g2 if keq(kk, k)]
                    if len(m) != 1 or any(not same(r[c], [x[c] for x in m[0]]) for c in others):
                        ok3 = False
        else:
            st3, gb2 = ctx.call(d.groupby, *keys) if GRP == 'grp' else ctx.call(d.groupby, *keys, grp=GRP)
            ok3 = st3 == 'ok' and len(gb2) == len(g2)
            if ok3:
                for r in gb2:
                    k = tuple(r[c] for c in keys)
                    m = [rs for kk, rs in g2 if keq(kk, k)]
                    if len(m) != 1 or len(r[GRP]) != len(m[0]) or any(not same(dict(a), {c: b[c] for c in others}) for a, b in zip(r[GRP], m[0])):
                        ok3 = False
        ctx.check('repeat_after_key_reassignment', ok3, lambda: '%s repeated on the same table after reassigning key column %r disagrees with the model groups %s' % (how, c0, g2))
    if len(g) >= 2 and any(len(rs) >= 2 for _, rs in g):
        ctx.mark_nontrivial(case)
    ctx.cls(how)
    ctx.cls('nkeys:%d' % len(keys))


AGG = {'first': lambda v: v[0], 'last': lambda v: v[-1], 'len': len, 'str': str, 'wrap': lambda v: [v]}


def run_pivot(case, ctx):
    from pyg_base import dictable, cmp
    sess = codec._Session()
    cols = {c: codec.dec(v, sess) for c, v in case['cols'].items()}
    n = len(cols['z'])
    d = dictable(cols) if n else dictable([], list(cols))
    if n == 0:
        ctx.cls('pivot:empty_table')
    rows = [dict(r) for r in d]
    x = case['x']
    agg = case['agg']
    snap0 = core.snap(dict(d))
    aggf = None if agg is None else (AGG[agg] if isinstance(agg, str) else [AGG[a] for a in agg])
    xarg = x[0] if len(x) == 1 and case.get('xstr') else list(x)
    fn = d.pivot if case.get('alias') else d.xyz
    st, pv = ctx.call(fn, xarg, 'y', 'z', aggf)
    if st != 'ok':
        ctx.ev('pivot_model'); ctx.fail('pivot_model', 'pivot raised %s' % core.exc_str(pv)); return
    label = lambda v: str(v) if isinstance(v, int) and not isinstance(v, bool) else v
    gx = groups(rows, x)
    labels = []
    for r in rows:
        if label(r['y']) not in labels:
            labels.append(label(r['y']))

    def cell(rs, lab):
        zs = [r['z'] for r in rs if label(r['y']) == lab]
        if not zs:
            return None
        if agg is None:
            return zs
        v = zs
        for a in ([agg] if isinstance(agg, str) else agg):
            v = AGG[a](v)
        return v
    ok = type(pv) is dictable and len(pv) == len(gx) and sorted(map(str, pv.keys())) == sorted(map(str, x + labels)) and set(pv.keys()) == set(x + labels)
    if ok:
        for r in pv:
            k = tuple(r[c] for c in x)
            m = [rs for kk, rs in gx if keq(kk, k)]
            if len(m) != 1 or any(not same(r[lab], cell(m[0], lab)) for lab in labels):
                ok = False
                break
    ctx.check('pivot_model', ok, lambda: 'pivot(x=%s,y,z,agg=%s) = cols %s rows %s\nrows %s' % (x, agg, list(pv.keys()), [dict(r) for r in pv], rows))
    ctx.check('operands_unchanged', core.snap_same(core.snap(dict(d)), snap0), lambda: 'table modified')
    if ok:
        st2, up = ctx.call(pv.unpivot, xarg, 'y', 'z')
        exp = collections.Counter()
        for kk, rs in gx:
            for lab in labels:
                c = cell(rs, lab)
                if c is not None:
                    exp[rowkey(dict(zip(x, kk), y=lab, z=c))] += 1
        ok2 = st2 == 'ok' and type(up) is dictable and sorted(up.keys()) == sorted(x + ['y', 'z'])
        if ok2:
            got = collections.Counter(rowkey(dict(r)) for r in up if r['z'] is not None)
            ok2 = got == exp and len(up) == len(gx) * len(labels)
        ctx.check('unpivot_roundtrip', ok2, lambda: 'unpivot(pivot) = %s\nexpected non-None cells %s' % ([dict(r) for r in up] if st2 == 'ok' else up, sorted(exp)))
        if ok2 and len(labels):
            # the y columns named explicitly, {y name: [label columns]}; the same dict object serves two calls (two pivots of one table are unpivoted with one description)
            ydesc = {'y': [c for c in pv.keys() if c not in x]}
            keep_desc = {'y': list(ydesc['y'])}
            for rep in range(2):
                st3, up3 = ctx.call(pv.unpivot, xarg, ydesc, 'z')
                ok3 = st3 == 'ok' and type(up3) is dictable and sorted(up3.keys()) == sorted(x + ['y', 'z']) and ydesc == keep_desc
                if ok3:
                    ok3 = collections.Counter(rowkey(dict(r)) for r in up3 if r['z'] is not None) == exp and len(up3) == len(gx) * len(labels)
                if not ctx.check('unpivot_roundtrip', ok3, lambda: 'unpivot(x, {y: label columns}, z), call %d with the same description object %r (was %r) = %s' % (rep + 1, ydesc, keep_desc, [dict(r) for r in up3] if st3 == 'ok' else up3)):
                    break
    if len(gx) >= 2 and any(len(rs) >= 2 for _, rs in gx):
        ctx.mark_nontrivial(case)
    ctx.cls('pivot:agg=%s' % (agg,))


def run_case(case, ctx):
    if case['how'] == 'pivot':
        return run_pivot(case, ctx)
    return run_listby(case, ctx)


def gen_case(rng):
    how = rng.choice(['listby', 'listby', 'groupby', 'pivot', 'pivot'])
    n = rng.choice([0, 1, 2, 3, 4, 5, 6, 8, 10]) if how != 'pivot' else rng.choice([0, 1, 2, 3, 4, 5, 6, 8, 10, 1, 2, 3, 4, 5, 6, 8, 10])
    if how == 'pivot' and rng.random() < 0.02:
        n = rng.choice([70, 140])            # a few long tables for pivot too
    if how != 'pivot' and rng.random() < 0.02:
        n = rng.choice([256, 300, 520])       # long tables: any size-dependent path of the grouping code
    if how == 'pivot':
        nx = rng.choice([1, 1, 2])
        x = rng.choice([['a', 'b'], ['id1', 'tk'], ['ticker', 'p2'], ['data', 'columns'], ['columns', 'key']])[:nx]
        kinds = [rng.choice(['int', 'str', 'num', 'dt', 'mixed', 'numnan', 'bigint', 'npfloat', 'dtz', 'pdns']) for _ in x]
        cols = {c: [kcell(rng, k) for _ in range(n)] for c, k in zip(x, kinds)}
        ykind = rng.choice(['str', 'int', 'both', 'str', 'int', 'both', 'other', 'samestr', 'floats'])
        ypool = {'str': ['p', 'q', 'r'], 'int': [1, 2, 3], 'both': ['p', 'q', 1, 2], 'other': [2.5, 0.5, {'$dt': '2020-01-01T00:00:00'}, {'$dt': '2021-06-30T00:00:00'}, 'p'],
                 'samestr': [1.5, '1.5', None, 'None', 'p', 2.5], 'floats': [1.0, 2.0, 3.0, 2.5]}[ykind]
        if x[0] != 'a' and ykind in ('str', 'int', 'both'):
            ypool = {'str': ['tick', 'e', 'd', 'q'], 'int': [1, 2, 3], 'both': ['t', 'k', 1, 2]}[ykind]     # labels that are substrings of an x column name
        cols['y'] = [rng.choice(ypool) for _ in range(n)]
        zpool = [0, 1, 2.5, 'u', 'v', 7, {'$nan': rng.randrange(9)}] + ([None, None] if rng.random() < 0.3 else [])     # None is a value a row may carry, too
        cols['z'] = [rng.choice(zpool) for _ in range(n)]
        agg = rng.choice([None, None, 'first', 'last', 'len', ['last'], ['first'], ['last', 'str'], ['len', 'str'], ['first', 'wrap', 'len'], ['last', 'wrap']])     # lists apply left to right
        return {'how': 'pivot', 'cols': cols, 'x': x, 'agg': agg, 'xstr': rng.random() < 0.5, 'alias': rng.random() < 0.3}
    names = (['a', 'b', 'c', 'd'] if rng.random() > 0.1 else ['data', 'columns', 'key', 'x'])[:rng.randint(1, 4)]     # also columns called like the library's own parameters
    kinds = {c: rng.choice(['int', 'str', 'num', 'dt', 'mixed', 'mixed', 'numnan', 'bigint', 'npfloat', 'dtz', 'pdns']) for c in names}
    nk = rng.randint(1, len(names))
    keys = rng.sample(names, nk)
    cols = {}
    for c in names:
        if c in keys:
            cols[c] = [kcell(rng, kinds[c]) for _ in range(n)]
        else:
            cols[c] = gen.cells(rng, n, nan=0.1)
    cols['id'] = list(range(n))
    case = {'how': how, 'cols': cols, 'keys': keys, 'star': rng.random() < 0.7, 'phase2': rng.random() < 0.3}
    case['phase2_via'] = rng.choice(['item', 'item', 'update', 'ior', 'update_table', 'ior_table'])
    if how == 'groupby' and rng.random() < 0.3:
        case['grp'] = rng.choice(['sub', 'g2', 'rows'])
    return case


def plan(tier, seed, n):
    per = 800 if tier == 'quick' else 40000
    return [{'n': per} for _ in range(n)]


def run(spec, ctx):
    for i in range(spec['n']):
        rng = random.Random('C11/%d/%d/%d' % (spec['seed'], spec['shard'], i))
        case = gen_case(rng)
        ctx.case(case)
        ctx.run_case(case, run_case)
        if ctx.full():
            break


def replay(case, ctx):
    ctx.case(case)
    ctx.run_case(case, run_case, shrink=False)
