"""Seeded generators of hostile scalar cells / column names shared by the table properties.
All values are produced as codec *terms*."""
import datetime

COLS = ['a', 'b', 'c', 'd', 'e', 'f']
STRS = ['x', 'y', 'z', '', 'x y']
DATES = ['2020-01-01T00:00:00', '2021-02-28T00:00:00', '2020-01-01T12:30:00']


def cell(rng, nan=0.08, kinds='nifsd'):
    """None / int / float / str / datetime cell term"""
    k = rng.choice(kinds)
    if rng.random() < nan and 'f' in kinds:
        return {'$nan': rng.choice([0, 1, 'np'])}
    if k == 'n':
        return None
    if k == 'i':
        return rng.choice([0, 1, 2, 3, -1])
    if k == 'f':
        return rng.choice([0.0, 1.0, 2.5, -1.5, 3.0])
    if k == 's':
        return rng.choice(STRS)
    if k == 'd':
        return {'$dt': rng.choice(DATES)}
    raise ValueError(k)


def cells(rng, n, **kw):
    return [cell(rng, **kw) for _ in range(n)]


def subset(rng, xs, lo=0, hi=None):
    xs = list(xs)
    hi = len(xs) if hi is None else min(hi, len(xs))
    k = rng.randint(min(lo, hi), hi)
    return rng.sample(xs, k)
