"""JSON-able tagged terms <-> live Python objects.

Cases are generated *as terms* so that a replay file reproduces exactly what ran.  Tags:
  {"$nan": k}      a float NaN; equal k within one decode() => the same object, different k => different objects;
                   k == "np" => the shared numpy.nan singleton
  {"$inf": +-1}    float infinity
  {"$dt": iso}     datetime.datetime        {"$date": iso}  datetime.date
  {"$t": [...]}    tuple                    {"$set": [...]} (unused)
  {"$np": [dtype, v]}  numpy scalar (v may itself be a $nan/$dt term)
  {"$arr": [dtype, nested-list]}  numpy array
  {"$ts": [[iso...], [values...]]}  pd.Series with DatetimeIndex ; optional third element: name
  {"$df": [[iso...], [cols...], [[row values...]...]]}  pd.DataFrame with DatetimeIndex
  {"$Dict": {...}} pyg_base.Dict   {"$dictattr": {...}} pyg_base.dictattr   {"$dictable": {col: [..]}}
  {"$td": seconds} datetime.timedelta
  {"$re": pattern} compiled regex
  plain dict (string keys not starting with '$') => dict;  list => list;  scalars as is.
"""
import datetime, math, re, json, hashlib
import numpy as np


class _Session(object):
    def __init__(self):
        self.nans = {}

    def nan(self, k):
        if k == 'np':
            return np.nan
        if k == 'neg':
            return -float('nan')          # a NaN with another bit pattern (sign bit set), as inf - inf or 0 * -inf leave behind
        if k not in self.nans:
            self.nans[k] = float('nan')
        return self.nans[k]


def dec(term, s=None):
    s = s or _Session()
    return _dec(term, s)


def _idx(isos):
    import pandas as pd
    return pd.DatetimeIndex([datetime.datetime.fromisoformat(i) for i in isos])


def _dec(t, s):
    if isinstance(t, list):
        return [_dec(v, s) for v in t]
    if isinstance(t, dict):
        if len(t) == 1:
            (k, v), = t.items()
            if k.startswith('$'):
                if k == '$nan':
                    return s.nan(v)
                if k == '$inf':
                    return math.inf * v
                if k == '$dt':
                    return datetime.datetime.fromisoformat(v)
                if k == '$date':
                    return datetime.date.fromisoformat(v)
                if k == '$td':
                    return datetime.timedelta(seconds=v)
                if k == '$t':
                    return tuple(_dec(x, s) for x in v)
                if k == '$re':
                    return re.compile(v[0], v[1]) if isinstance(v, list) else re.compile(v)      # [pattern, flags] or pattern
                if k == '$np':
                    dtype, x = v
                    x = _dec(x, s)
                    if dtype.startswith('datetime64'):
                        return np.datetime64(x).astype(dtype)
                    if dtype.startswith('timedelta64'):
                        return np.timedelta64(x).astype(dtype) if isinstance(x, str) else np.timedelta64(x, dtype[dtype.index('[') + 1:-1])
                    return np.dtype(dtype).type(x)
                if k == '$arr':
                    dtype, x = v[0], v[1]
                    a = np.array(_dec(x, s), dtype=dtype)
                    return a.reshape(v[2]) if len(v) > 2 else a
                if k == '$pdts':
                    import pandas as pd
                    return pd.Timestamp(v)
                if k == '$pdnat':
                    import pandas as pd
                    return pd.NaT
                if k == '$srmi':   # Series on a MultiIndex: [list of label tuples (as lists), values]
                    import pandas as pd
                    return pd.Series(_dec(v[1], s), index=pd.MultiIndex.from_tuples([tuple(t_) for t_ in v[0]]))
                if k == '$range':  # a pandas RangeIndex: [start, stop, step]
                    import pandas as pd
                    return pd.RangeIndex(v[0], v[1], v[2])
                if k == '$sr':   # generic Series: [index values, values, dtype|None]
                    import pandas as pd
                    return pd.Series(_dec(v[1], s), index=_dec(v[0], s), dtype=v[2] if len(v) > 2 else None)
                if k == '$frame':  # generic DataFrame: [index values, columns, rows]
                    import pandas as pd
                    return pd.DataFrame(_dec(v[2], s), index=_dec(v[0], s), columns=_dec(v[1], s), dtype=v[3] if len(v) > 3 else None)
                if k == '$tsz':      # Series on a timezone-aware index: [naive UTC stamps, values, tz]
                    import pandas as pd
                    return pd.Series(_dec(v[1], s), index=_idx(v[0]).tz_localize('UTC').tz_convert(v[2]), dtype=float)
                if k == '$ts':
                    import pandas as pd
                    vals = _dec(v[1], s)
                    res = pd.Series(vals, index=_idx(v[0]), dtype=float if len(v) < 4 else v[3])
                    if len(v) > 2 and v[2] is not None:
                        res.name = v[2]
                    return res
                if k == '$df':
                    import pandas as pd
                    rows = _dec(v[2], s)
                    return pd.DataFrame(np.array(rows, dtype=float).reshape(len(v[0]), len(v[1])), index=_idx(v[0]), columns=list(v[1]))
                if k == '$idict':     # a plain dict with integer keys (json keys are strings)
                    return {int(kk): _dec(vv, s) for kk, vv in v.items()}
                if k == '$Dict':
                    from pyg_base import Dict
                    return Dict({kk: _dec(vv, s) for kk, vv in v.items()})
                if k == '$dictattr':
                    from pyg_base import dictattr
                    return dictattr({kk: _dec(vv, s) for kk, vv in v.items()})
                if k == '$dictable':
                    from pyg_base import dictable
                    return dictable({kk: _dec(vv, s) for kk, vv in v.items()})
                raise ValueError('unknown tag %s' % k)
        return {k: _dec(v, s) for k, v in t.items()}
    return t


def enc(x):
    """live object -> term (NaN identity classes are assigned by object id within this call)"""
    ids = {}
    return _enc(x, ids)


def _enc(x, ids):
    import pandas as pd
    if x is None or isinstance(x, (bool, str)):
        return x if not isinstance(x, np.str_) else {'$np': ['str_', str(x)]}
    if isinstance(x, (np.bool_,)):
        return {'$np': ['bool_', bool(x)]}
    if isinstance(x, np.integer):
        return {'$np': [x.dtype.name, int(x)]}
    if isinstance(x, np.floating):
        return {'$np': [x.dtype.name, _enc(float(x), ids)]}
    if isinstance(x, np.datetime64):
        return {'$np': [str(x.dtype), str(x)]}
    if isinstance(x, int):
        return x
    if isinstance(x, float):
        if x != x:
            if x is np.nan:
                return {'$nan': 'np'}
            return {'$nan': ids.setdefault(id(x), len(ids))}
        if x in (math.inf, -math.inf):
            return {'$inf': 1 if x > 0 else -1}
        return x
    if isinstance(x, pd.Timestamp):
        return {'$dt': x.to_pydatetime().isoformat()}
    if isinstance(x, datetime.datetime):
        return {'$dt': x.isoformat()}
    if isinstance(x, datetime.date):
        return {'$date': x.isoformat()}
    if isinstance(x, datetime.timedelta):
        return {'$td': x.total_seconds()}
    if isinstance(x, tuple):
        return {'$t': [_enc(v, ids) for v in x]}
    if isinstance(x, list):
        return [_enc(v, ids) for v in x]
    if isinstance(x, re.Pattern):
        return {'$re': x.pattern} if x.flags in (0, re.UNICODE) else {'$re': [x.pattern, int(x.flags)]}
    if isinstance(x, np.ndarray):
        return {'$arr': [str(x.dtype), _enc(x.tolist(), ids)]}
    if isinstance(x, pd.Series):
        return {'$ts': [[_iso(i) for i in x.index], _enc([v for v in x.values.tolist()], ids), x.name]}
    if isinstance(x, pd.DataFrame):
        return {'$df': [[_iso(i) for i in x.index], [str(c) for c in x.columns], _enc(x.values.tolist(), ids)]}
    if isinstance(x, dict):
        body = {str(k): _enc(v, ids) for k, v in x.items()}
        n = type(x).__name__
        if n in ('Dict', 'dictattr', 'dictable'):
            return {'$' + n: body}
        return body
    return {'$repr': repr(x)}


def _iso(i):
    try:
        return i.to_pydatetime().isoformat()
    except Exception:
        return str(i)


def canon(term):
    return json.dumps(term, sort_keys=True, default=str)


def chash(term):
    return hashlib.sha1(canon(term).encode()).hexdigest()[:16]
