"""pytest plugin: the repository's OWN test suite as one more workload for the class invariants.

    tools/tests_under_contracts.sh          (cd $VERIF_REPO; pytest -p vlib.pytest_contracts tests)

The icontract invariants of vlib.contracts (dictable 'rectangular', ulist 'all_unique') are attached to the real classes
before any test module is imported, so every dictable / ulist the tests build is checked after each public method.
An invariant that fires here is either too strict or a defect the tests do not assert: the witness is printed with the
test that produced it.  Evaluation counts are printed at the end; zero evaluations means the plugin was bypassed."""
import os, sys, json

HERE = os.path.dirname(os.path.dirname(os.path.abspath(__file__)))
if HERE not in sys.path:
    sys.path.insert(0, HERE)

_state = {'fired': [], 'current': None}


def pytest_configure(config):
    from vlib import env
    env.ensure_deps()
    env.import_repo()
    from vlib import contracts
    contracts.install_dictable()
    contracts.install_ulist()


def pytest_runtest_logreport(report):
    from vlib import contracts
    if report.failed and report.longrepr is not None:
        txt = str(report.longrepr)
        if 'InvariantBroken' in txt or 'PostBroken' in txt:
            _state['fired'].append((report.nodeid, [l for l in txt.splitlines() if 'Broken' in l][-1][:400]))


def pytest_terminal_summary(terminalreporter):
    from vlib import contracts
    tr = terminalreporter
    tr.write_line('contracts: evaluations %s' % dict(contracts.COUNTS))
    for nodeid, line in _state['fired']:
        tr.write_line('CONTRACT-FIRED %s: %s' % (nodeid, line))
    out = os.environ.get('VERIF_CONTRACTS_OUT')
    if out:
        json.dump({'evaluations': dict(contracts.COUNTS), 'fired': _state['fired']}, open(out, 'w'), indent=1)
