"""Monitors shared by all property checks: strict structural equality, operand snapshots,
logical-step budgets (sys.monitoring), wall-clock watchdog, and the per-shard observation context."""
import sys, math, time, signal, datetime, traceback, collections, copy as _copy
import numpy as np
from . import codec


# ---------------------------------------------------------------- exceptions (BaseException on purpose:
# the library's len0 and several try_* helpers swallow Exception)
class StepBudgetExceeded(BaseException):
    pass


class WatchdogFired(BaseException):
    pass


class HarnessError(Exception):
    pass


# ---------------------------------------------------------------- strict equality, independent of pyg_base.eq
def _isnan(x):
    return isinstance(x, (float, np.floating)) and x != x


_NUM = (int, float, np.integer, np.floating)


def same(x, y, strict_num=False, col_order=True):
    """harness equality: same concrete container type, order-sensitive sequences, NaN==NaN,
    numbers by == (1 == 1.0) unless strict_num; pandas via index/columns/cells."""
    import pandas as pd
    if x is y:
        return True
    if _isnan(x) or _isnan(y):
        return _isnan(x) and _isnan(y)
    if isinstance(x, bool) or isinstance(y, bool) or isinstance(x, np.bool_) or isinstance(y, np.bool_):
        return isinstance(x, (bool, np.bool_)) and isinstance(y, (bool, np.bool_)) and bool(x) == bool(y)
    if isinstance(x, _NUM) and isinstance(y, _NUM):
        if strict_num and (isinstance(x, (int, np.integer)) != isinstance(y, (int, np.integer))):
            return False
        return bool(x == y)
    if isinstance(x, pd.DataFrame) or isinstance(y, pd.DataFrame):
        if not (isinstance(x, pd.DataFrame) and isinstance(y, pd.DataFrame)):
            return False
        if list(x.index) != list(y.index):
            return False
        if col_order:
            if list(x.columns) != list(y.columns):
                return False
        else:
            if sorted(map(str, x.columns)) != sorted(map(str, y.columns)) or len(set(x.columns)) != len(x.columns):
                return False
            y = y[list(x.columns)]
        return same(x.values.tolist(), y.values.tolist(), strict_num)
    if isinstance(x, pd.Series) or isinstance(y, pd.Series):
        if not (isinstance(x, pd.Series) and isinstance(y, pd.Series)):
            return False
        return list(x.index) == list(y.index) and same(x.values.tolist(), y.values.tolist(), strict_num)
    if isinstance(x, np.ndarray) or isinstance(y, np.ndarray):
        if not (isinstance(x, np.ndarray) and isinstance(y, np.ndarray)):
            return False
        return x.shape == y.shape and same(x.tolist(), y.tolist(), strict_num)
    if isinstance(x, dict) or isinstance(y, dict):
        if type(x) is not type(y):
            return False
        if set(x.keys()) != set(y.keys()):
            return False
        return all(same(dict.__getitem__(x, k), dict.__getitem__(y, k), strict_num, col_order) for k in x.keys())
    if isinstance(x, (list, tuple)) or isinstance(y, (list, tuple)):
        if type(x) is not type(y) or len(x) != len(y):
            return False
        return all(same(a, b, strict_num, col_order) for a, b in zip(x, y))
    if type(x) is not type(y):
        # datetime vs Timestamp etc: compare by value only if both are datetimes
        if isinstance(x, datetime.datetime) and isinstance(y, datetime.datetime):
            return x == y
        return False
    try:
        return bool(x == y)
    except Exception:
        return False


def cell_same(x, y):
    """cell-level equality for table models: NaN==NaN, identity, otherwise same()"""
    return same(x, y)


# ---------------------------------------------------------------- operand snapshots
def snap(x, depth=0):
    """a deep structural fingerprint that does not share mutable state with x"""
    import pandas as pd
    if isinstance(x, pd.DataFrame):
        return ('df', list(x.index), list(x.columns), x.values.tolist(), str(list(x.dtypes)))
    if isinstance(x, pd.Series):
        return ('ts', list(x.index), x.values.tolist(), x.name, str(x.dtype))
    if isinstance(x, np.ndarray):
        return ('arr', x.shape, str(x.dtype), x.tolist())
    if isinstance(x, dict):
        return ('dict', type(x).__name__, [(k, snap(dict.__getitem__(x, k), depth + 1)) for k in dict.keys(x)])
    if isinstance(x, list):
        return ('list', type(x).__name__, [snap(v, depth + 1) for v in x])
    if isinstance(x, tuple):
        return ('tuple', [snap(v, depth + 1) for v in x])
    if _isnan(x):
        return ('nan', id(x))
    return ('leaf', type(x).__name__, x if isinstance(x, (int, float, str, bool, type(None), datetime.date)) else id(x))


def snap_same(a, b):
    return _snap_eq(a, b)


def _snap_eq(a, b):
    if isinstance(a, (list, tuple)) and isinstance(b, (list, tuple)):
        return type(a) is type(b) and len(a) == len(b) and all(_snap_eq(p, q) for p, q in zip(a, b))
    if _isnan(a) and _isnan(b):
        return True
    try:
        return type(a) is type(b) and bool(a == b)
    except Exception:
        return False


# ---------------------------------------------------------------- logical step budgets
class StepBudget(object):
    """count LINE events inside the given code objects; raise StepBudgetExceeded past `budget`.
    Termination is decided on logical steps, never on wall clock."""
    TOOL = 2  # sys.monitoring.PROFILER_ID ... any free id

    def __init__(self, codes, budget):
        self.codes = [c for c in (_code(c) for c in codes) if c is not None]
        self.budget = int(budget)
        self.count = 0
        self.exceeded = False

    def __enter__(self):
        m = sys.monitoring
        try:
            m.use_tool_id(self.TOOL, 'verif-steps')
        except ValueError:
            pass
        self.count = 0

        def cb(code, line):
            self.count += 1
            if self.count > self.budget:
                self.exceeded = True
                raise StepBudgetExceeded('%d line events > budget %d in %s' % (self.count, self.budget, code.co_name))
        m.register_callback(self.TOOL, m.events.LINE, cb)
        for c in self.codes:
            m.set_local_events(self.TOOL, c, m.events.LINE)
        return self

    def reset(self, budget=None):
        self.count = 0
        if budget is not None:
            self.budget = int(budget)

    def __exit__(self, *a):
        m = sys.monitoring
        for c in self.codes:
            try:
                m.set_local_events(self.TOOL, c, 0)
            except Exception:
                pass
        m.register_callback(self.TOOL, m.events.LINE, None)
        try:
            m.free_tool_id(self.TOOL)
        except Exception:
            pass
        return False


def _code(f):
    if f is None:
        return None
    if hasattr(f, 'co_code'):
        return f
    f = getattr(f, '__func__', f)
    w = getattr(f, '__wrapped__', None)
    if hasattr(f, '__code__'):
        return f.__code__
    if w is not None:
        return _code(w)
    return None


# ---------------------------------------------------------------- wall-clock watchdog (back-stop only => inconclusive)
class Watchdog(object):
    def __init__(self, seconds):
        self.seconds = seconds

    def __enter__(self):
        def handler(signum, frame):
            raise WatchdogFired('wall-clock watchdog %ss' % self.seconds)
        self.old = signal.signal(signal.SIGALRM, handler)
        signal.setitimer(signal.ITIMER_REAL, self.seconds, 1.0)  # repeating: a swallowed raise is re-raised
        return self

    def __exit__(self, *a):
        signal.setitimer(signal.ITIMER_REAL, 0)
        signal.signal(signal.SIGALRM, self.old)
        return False


# ---------------------------------------------------------------- observation context
class Ctx(object):
    MAX_VIOL = 25
    MAX_SAMPLES = 3

    def __init__(self, prop, tier, seed, shard=0):
        self.prop, self.tier, self.seed, self.shard = prop, tier, seed, shard
        self.monitors = collections.Counter()
        self.classes = collections.Counter()
        self.cases = 0
        self.nontrivial = set()
        self.samples = []
        self.violations = []
        self.viol_count = 0
        self.unclassified = 0
        self.harness_errors = []
        self.inconclusive = []
        self.extra = {}
        self.current = None
        self.t0 = time.time()

    # counters
    def ev(self, monitor, n=1):
        self.monitors[monitor] += n

    def cls(self, name, n=1):
        self.classes[name] += n

    def case(self, term, nontrivial=False, sample=True):
        """register one explored case (a JSON-able term)"""
        self.cases += 1
        self.current = term
        if nontrivial:
            h = codec.chash(term)
            if h not in self.nontrivial:
                self.nontrivial.add(h)
                if sample and len(self.samples) < self.MAX_SAMPLES:
                    self.samples.append(term)

    def mark_nontrivial(self, term=None):
        term = self.current if term is None else term
        h = codec.chash(term)
        if h not in self.nontrivial:
            self.nontrivial.add(h)
            if len(self.samples) < self.MAX_SAMPLES:
                self.samples.append(term)

    def maxstat(self, name, value):
        if value > self.extra.get(name, -math.inf):
            self.extra[name] = value

    # verdicts
    def fail(self, monitor, detail, mech=None, case=None):
        self.viol_count += 1
        if mech:
            keep = sum(1 for v in self.violations if v['mech'] == mech) < 3
        else:
            self.unclassified += 1
            keep = self.unclassified <= self.MAX_VIOL
        if keep:
            self.violations.append({'monitor': monitor, 'mech': mech, 'detail': _short(detail),
                                    'case': self.current if case is None else case,
                                    'prop': self.prop, 'seed': self.seed, 'shard': self.shard})

    def check(self, monitor, cond, detail=None, mech=None):
        self.monitors[monitor] += 1
        if not cond:
            self.fail(monitor, detail() if callable(detail) else detail, mech=mech)
            return False
        return True

    def full(self):
        return self.unclassified >= self.MAX_VIOL

    def call(self, fn, *a, **k):
        """call library code: returns ('ok', value) | ('exc', exception).  BaseExceptions of the harness propagate
        except StepBudgetExceeded which is returned as ('steps', e)."""
        try:
            return 'ok', fn(*a, **k)
        except StepBudgetExceeded as e:
            return 'steps', e
        except WatchdogFired:
            raise
        except Exception as e:
            return 'exc', e

    def result(self):
        return {'prop': self.prop, 'tier': self.tier, 'seed': self.seed, 'shard': self.shard,
                'monitors': dict(self.monitors), 'classes': dict(self.classes), 'cases': self.cases,
                'nontrivial': sorted(self.nontrivial), 'samples': self.samples,
                'violations': self.violations, 'viol_count': self.viol_count,
                'harness_errors': self.harness_errors[:5], 'inconclusive': self.inconclusive[:5],
                'extra': self.extra, 'wall_s': time.time() - self.t0}


def _short(d, n=1500):
    s = d if isinstance(d, str) else repr(d)
    return s if len(s) <= n else s[:n] + '...<%d more>' % (len(s) - n)


def exc_str(e):
    return '%s: %s' % (type(e).__name__, _short(str(e), 300))


# ---------------------------------------------------------------- generic greedy shrinker over JSON terms
def shrink(term, still_fails, budget=150):
    """greedy structural shrinking: drop list elements / dict entries while `still_fails(term)` holds.
    Structurally invalid candidates simply do not fail the same way and are discarded."""
    best = term
    tries = [0]

    def attempt(cand):
        if tries[0] >= budget:
            return False
        tries[0] += 1
        try:
            return bool(still_fails(cand))
        except BaseException:
            return False

    improved = True
    while improved and tries[0] < budget:
        improved = False
        for path in _paths(best):
            node = _get(best, path)
            if isinstance(node, list) and len(node) > 0:
                i = len(node) - 1
                while i >= 0 and tries[0] < budget:
                    cand = _set(best, path, node[:i] + node[i + 1:])
                    if attempt(cand):
                        best = cand
                        node = _get(best, path)
                        improved = True
                    i -= 1
    return best


def _paths(t, p=()):
    out = []
    if isinstance(t, list):
        out.append(p)
        for i, v in enumerate(t):
            out.extend(_paths(v, p + (i,)))
    elif isinstance(t, dict):
        for k, v in t.items():
            out.extend(_paths(v, p + (k,)))
    return out


def _get(t, p):
    for k in p:
        try:
            t = t[k]
        except Exception:
            return None
    return t


def _set(t, p, v):
    if not p:
        return v
    t2 = _copy.copy(t)
    t2[p[0]] = _set(t[p[0]], p[1:], v)
    return t2
