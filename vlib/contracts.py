"""icontract invariants / post-conditions attached to the *real* classes and functions from the harness
(no source edits).  Every condition counts its evaluations; zero evaluations => inconclusive."""
import collections
import icontract

COUNTS = collections.Counter()
BROKEN = []  # (name, description) recorded, the error is raised as BaseException so nothing swallows it


class InvariantBroken(BaseException):
    pass


class PostBroken(BaseException):
    pass


_installed = set()


def rectangular(self):
    COUNTS['dictable_rectangular'] += 1
    vals = list(dict.values(self))
    for v in vals:
        if type(v) is not list:
            return False
    return len(set(len(v) for v in vals)) <= 1


def all_unique(self):
    COUNTS['ulist_unique'] += 1
    items = list.__iter__(self)
    seen = []
    for x in items:
        for y in seen:
            if x is y or x == y:
                return False
        seen.append(x)
    return True


def install_dictable():
    if 'dictable' in _installed:
        return
    from pyg_base import dictable
    icontract.invariant(rectangular, error=lambda self: InvariantBroken('dictable not rectangular: %s' % {k: (type(v).__name__, len(v) if hasattr(v, '__len__') else None) for k, v in dict.items(self)}))(dictable)
    _installed.add('dictable')


def install_ulist():
    if 'ulist' in _installed:
        return
    from pyg_base import ulist
    icontract.invariant(all_unique, error=lambda self: InvariantBroken('ulist with duplicates: %s' % list(self)))(ulist)
    _installed.add('ulist')
